#!/bin/bash
# Runs every /verif/mutants/<ID>-*.patch against its property's quick check in a scratch worktree.
# Prints one line per mutant: CAUGHT / MISSED. (Sensitivity evidence; not a registered check.)
VERIF="$(cd "$(dirname "${BASH_SOURCE[0]}")/.." && pwd)"
res=0
for p in "$VERIF"/mutants/*.patch; do
  name="$(basename "$p" .patch)"; id="${name%%-*}"
  out="$(SKIP_TESTS=${SKIP_TESTS:-0} "$VERIF/tools/try_mutant.sh" "$p" "$id" 2>&1)"; rc=$?
  tests="$(echo "$out" | grep 'repository test suite' | sed 's/.*change: //')"
  sig="$(echo "$out" | grep 'signature:' | head -1 | cut -c1-150)"
  if [ $rc -eq 0 ]; then echo "CAUGHT $name [$tests] $sig"; else echo "MISSED $name [$tests] $(echo "$out" | grep -E '==|HARNESS' | head -2 | tr '\n' ' ')"; res=1; fi
done
exit $res
