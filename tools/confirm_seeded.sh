#!/bin/bash
# tools/confirm_seeded.sh <dir with patch.diff + mutant_demo.rs>
# Confirms in a scratch worktree: the demonstration passes without the change, fails with it, and the
# repository's own suite (without the demonstration) passes with the change.
set -uo pipefail
D="$(readlink -f "$1")"; WT="${MUT_WT:-/tmp/mutrepo}"
[ -d "$WT" ] || git -C /repo worktree add -q --detach "$WT" HEAD
git -C "$WT" checkout -q --detach "$(git -C /repo rev-parse HEAD)"; git -C "$WT" checkout -q -- .; git -C "$WT" clean -qfd -e target
cp "$D/mutant_demo.rs" "$WT/pdf/tests/mutant_demo.rs"
( cd "$WT" && cargo test --offline -p pdf --test mutant_demo >/tmp/demo_without.log 2>&1 ); a=$?
git -C "$WT" apply "$D/patch.diff" || { echo "patch does not apply"; exit 2; }
( cd "$WT" && cargo test --offline -p pdf --test mutant_demo >/tmp/demo_with.log 2>&1 ); b=$?
rm -f "$WT/pdf/tests/mutant_demo.rs"
suite="$( cd "$WT" && cargo test --workspace --no-fail-fast --offline 2>&1 | grep -E "^test result" | awk '{p+=$4; f+=$6} END {print "passed="p" failed="f}' )"
git -C "$WT" checkout -q -- .; git -C "$WT" clean -qfd -e target
echo "demo without change: exit=$a ; demo with change: exit=$b ; suite with change: $suite"
[ $a -eq 0 ] && [ $b -ne 0 ] && [ "$suite" = "passed=34 failed=0" ]
