#!/opt/veriftools/pyvenv/bin/python
import json, sys, glob, jsonschema
ok = True
m = json.load(open('/verif/MANIFEST.json'))
try:
    jsonschema.validate(m, json.load(open('/root/.vp/MANIFEST.schema.json')))
    print("MANIFEST ok: claimed", [c['property_id'] for c in m['checks']], "n/a", len(m.get('not_applicable', [])))
except Exception as e:
    ok = False; print("MANIFEST INVALID", e)
props = [json.loads(l)['id'] for l in open('/verif/properties.jsonl')]
claimed = [c['property_id'] for c in m['checks']]
na = [x['property_id'] for x in m.get('not_applicable', [])]
for p in props:
    if (p in claimed) == (p in na):
        print("property", p, "claimed" if p in claimed else "neither claimed nor n/a"); 
sch = json.load(open('/root/.vp/EVIDENCE.schema.json'))
for f in sorted(glob.glob('/verif/evidence/*.json')):
    try:
        ev = json.load(open(f)); jsonschema.validate(ev, sch)
        print(f, "ok", ev['tier'], ev['coverage'].get('evaluations'), ev['coverage'].get('distinct_nontrivial'), round(ev['wall_s'],1))
    except Exception as e:
        ok = False; print(f, "INVALID", str(e)[:300])
sys.exit(0 if ok else 1)
