#!/bin/bash
# tools/try_mutant.sh <patch.diff> <property id>...   [TIER=quick]
# Applies a seeded change to a scratch worktree of /repo (never to /repo itself), confirms that the
# repository's own test suite still passes there, runs the given checks against it with evidence and
# replays redirected to a scratch output directory, and reverts. Exit code: 0 if every given check
# reported a violation (exit 1), 1 otherwise.
set -uo pipefail
VERIF="$(cd "$(dirname "${BASH_SOURCE[0]}")/.." && pwd)"
PATCH="$(readlink -f "$1")"; shift
TIER="${TIER:-quick}"
WT="${MUT_WT:-/tmp/mutrepo}"
OUT="${MUT_OUT:-/tmp/mutout}"
if [ ! -d "$WT" ]; then git -C /repo worktree add -q --detach "$WT" HEAD || exit 2; fi
git -C "$WT" checkout -q --detach "$(git -C /repo rev-parse HEAD)" 2>/dev/null
git -C "$WT" checkout -q -- . ; git -C "$WT" clean -qfd -e target
git -C "$WT" apply "$PATCH" || { echo "PATCH DOES NOT APPLY"; exit 2; }
mkdir -p "$OUT"; cp "$VERIF/known_findings.jsonl" "$OUT/"; rm -rf "$OUT/replays" "$OUT/evidence"
if [ "${SKIP_TESTS:-0}" != 1 ]; then
  ( cd "$WT" && cargo test --workspace --no-fail-fast --offline 2>&1 | grep -E "^test result" | awk '{p+=$4; f+=$6} END {print "repository test suite with the change: passed="p" failed="f}' )
fi
all=0
for id in "$@"; do
  PDF_REPO="$WT" VERIF_OUT="$OUT" "$VERIF/check" "$id" "$TIER" > "$OUT/$id.log" 2>&1; rc=$?
  echo "== $id $TIER exit=$rc"; grep -E "VIOLATION|signature:|HARNESS" "$OUT/$id.log" | head -8
  [ $rc -eq 1 ] || all=1
done
git -C "$WT" checkout -q -- . ; git -C "$WT" clean -qfd -e target
exit $all
