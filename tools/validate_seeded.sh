#!/bin/bash
# tools/validate_seeded.sh [id...]
# Re-runs every seeded change under /verif/seeded (or the given ones) against the check named in its
# meta.json (checked_with.command), in a scratch worktree. One line per change:
#   CAUGHT / MISSED / EXPECTED-MISS (meta.json says the change is not caught) / NO-APPLY.
# Sensitivity evidence; not a registered check. SKIP_TESTS=1 skips the repository suite per change.
VERIF="$(cd "$(dirname "${BASH_SOURCE[0]}")/.." && pwd)"
res=0
ids=("$@")
if [ ${#ids[@]} -eq 0 ]; then ids=($(ls "$VERIF/seeded")); fi
for id in "${ids[@]}"; do
  d="$VERIF/seeded/$id"
  [ -f "$d/meta.json" ] || { echo "NO-META $id"; continue; }
  cmd="$(python3 -c "import json,sys; print(json.load(open('$d/meta.json'))['checked_with']['command'])")"
  expect="$(python3 -c "import json,sys; print(json.load(open('$d/meta.json'))['checked_with']['result'])")"
  # command has the form: tools/try_mutant.sh seeded/<id>/<patch> <check ids...>
  read -r _ patch checks <<<"$cmd"
  out="$(cd "$VERIF" && SKIP_TESTS=${SKIP_TESTS:-1} tools/try_mutant.sh "$patch" $checks 2>&1)"; rc=$?
  sig="$(echo "$out" | grep 'signature:' | head -1 | cut -c1-140)"
  if echo "$out" | grep -q "PATCH DOES NOT APPLY"; then echo "NO-APPLY $id ($patch)"; res=1
  elif [ $rc -eq 0 ]; then echo "CAUGHT $id [$checks] $sig"
  elif [[ "$expect" == *"obsolete"* ]]; then echo "OBSOLETE $id [$checks] (the change no longer alters behaviour on the current tree)"
  elif [[ "$expect" == *"not caught"* ]]; then echo "EXPECTED-MISS $id [$checks]"
  else echo "MISSED $id [$checks] $(echo "$out" | grep -E '==|HARNESS' | head -2 | tr '\n' ' ')"; res=1; fi
done
exit $res
