#!/usr/bin/env python3
# Regenerates /verif/MANIFEST.json from the table below (single source of truth for the interface).
import json
CLAIMED = {
 "C14": dict(level="fault_enumeration", design="DESIGN.md §4.6",
   technique="deterministic fault injection: structure-aware at-rest faults (retarget / boundary / nest / hostile xref fields) planted through the harness writer, walked under simulated resource limits (stack size, allocator caps and meters, work budget) in supervised worker processes",
   text="Typed templates covering the followed reference fields and numeric parameters named in the property; the complete single-fault space (every reference field x every object incl. itself, object 0 and an undefined number; every numeric field x six boundary values; nesting; stream /Length references; hostile trailer and xref-stream fields incl. /Prev self-loops and /Prev naming any other section) is enumerated for all 22 templates (incl. DAG page / name / number trees, font / appearance / JBIG2 DAGs, a 3000-link parent chain, a 60-link ICC chain, text strings and dates, embedded files / metadata / structure tree / outline destinations, RC4-encrypted documents that open) in four configurations with and without bytes before the header (thorough; the quick tier alternates that last dimension, thins retarget targets and takes every third name / string value); further single faults: stream data replaced by 66 hostile payloads, hostile stream-dictionary entries, every string value x 14 hostile strings, every name value x 34 reader-selecting names, arrays made longer or shorter, objects replaced by one-element arrays around a reference to themselves, two numbers of one stream dictionary set to the same boundary value, small values for geometry and codec parameters, 25- and 5000-level nesting, plus seeded 2-3-fault cases (100 000 quick / 2 000 000 thorough); each case is walked through every read entry point with panics caught, stack overflow / abort / allocation refusal / timeout observed as worker death and confirmed twice.",
   note="Planting the structure is generation (stated in DESIGN.md); the simulation part is the resource side. Templates are small; resource constants are loose bounds against unboundedness."),
 "C01": dict(level="fault_enumeration", design="DESIGN.md §4.5",
   technique="deterministic fault injection on the storage seam (at-rest corruption, EOF anywhere, sector faults, splices) + metered allocator / stack / work budgets, each case walked through every read entry point in a supervised worker process",
   text="Valid stored documents (corpus incl. encrypted files opened with their user, owner, the empty or a wrong password; generated documents incl. RC4-encrypted ones) suffer seeded sequences of at-rest storage faults before open (bit / byte / sector / splice / digit-run / token-aligned overwrites / a string rewritten with another length with the cross-reference table shifted); the walker then makes every read call of the property's list, each under catch_unwind, under allocation / log-event meters, on a 2 MiB or 8 MiB stack, in {strict, tolerant} x {cached, uncached}; a worker death (stack overflow, abort, allocation refusal, timeout) is attributed to its case, confirmed twice and named by the library call being made. Complete enumeration of truncation points (and, thorough, of single-bit flips) on the small documents and of string token x 19 lengths x 4 passwords on the encrypted corpus files, plus seeded multi-fault cases.",
   note="Covers 'valid file + storage faults', not arbitrary byte strings nor grammar-generated texts; resource constants are deliberately loose bounds against unboundedness."),
 "C02": dict(level="exploration", design="DESIGN.md §4.4",
   technique="deterministic simulation of successive writers appending revisions to an append-only medium, crash points at every revision boundary; log-replay ordering check against a 'newest mention wins' map model",
   text="Seeded update histories (1-8 revisions, 3-12 object numbers; classic tables and xref streams with arbitrary subsection / Index splits incl. Index pairs with count 0, W widths incl. width 0, filters (stored Flate, ASCIIHex, LZW, ASCII85 with short final groups, ASCIIHex over Flate) and predictors (rows declared as 8-bit, two-colour, 16-bit or 4-bit samples); objects direct, compressed in one or two object streams, freed with generation+1, reused; Size growth; moving Root; trailers with and without /Info; one history in five RC4-encrypted with the harness's own security handler) written by the harness's independent writer and cross-checked by its strict reader; the library opens the medium after every append in strict+uncached and tolerant+cached mode and every object number below /Size plus the trailer is compared with the model. Sampling, not proof.",
   note="Trusted: the harness writer + strict reader. Torn final appends, hybrid files and generation-rule violations are outside the statement."),
 "C09": dict(level="exploration", design="DESIGN.md §4.3",
   technique="deterministic simulation of a store (put/read/sync/restart) with injected save failures and refusing sinks; step-by-step refinement against a map model, durability and prefix checks after every successful save",
   text="Seeded operation histories over {create, update of base objects (direct and compressed), of earlier references and of numbers the document does not define, typed page writes, typed stream copies that keep the source's filters, promise, fulfil, read, save, failing save (unfulfilled promise, stream still in the source file, /dev/full, missing directory), dirty restart} on corpus and generated base files (classic/stream xref, object streams, junk before the header, multi-revision histories with freed and reused numbers, a document that was never saved, caches on/off), always closed by replace-offender + fulfil + save + reload. After every step: read-your-writes through raw and typed paths; after every successful save: previous bytes are a prefix, every written reference (passed and handed) resolves to the model's value in a fresh reload, sampled untouched objects and stream data unchanged, the document information (incl. dates in every time-zone form) as before. Fault-free and fault batches counted separately. Sampling, not proof.",
   note="Update targets exclude objects the document needs to open; integers and reals of equal numeric value are identified when compared; file system is real apart from the refusing sinks."),
 "C12": dict(level="exploration", design="DESIGN.md §4.2",
   technique="deterministic simulation of call histories with cache-eviction fault injection; refinement check of the cached document against the uncached single-call reference model",
   text="Histories of read calls (typed loads incl. wrong types, raw resolves, stream data, raw and decoded image data, page look-ups, lazy loads; resolver reuse/renewal; set_options switches, as a whole or of a single option on documents with unclosed objects) on a document (generated families incl. cyclic, deep and dangling-reference documents, documents with unclosed objects, documents whose catalog is in an object stream, corpus) with real SyncCache caches in three cache modes, with eviction faults between and inside calls; each call's answer must equal the answer of that call alone on a fresh uncached document opened under the same options; a document that opens without caches must open with them. Complete enumeration of ordered pairs (quick) / triples (thorough) of call kinds per sampled object, plus seeded random histories; fault-free and fault batches counted separately.",
   note="Reference model is the library's own uncached behaviour; digests via canonicalised Debug renderings; objects of large corpus files are sampled."),
 "C13": dict(level="exploration", design="DESIGN.md §4.1",
   technique="deterministic simulation: seeded baton scheduler over real OS threads at the Cache/Log seams + eviction fault injection; linearizability-style check of every answer against the sequential (alone) answer; second engine: the same scenarios under Miri's seeded scheduler (no stubs)",
   text="Seeded search over schedules: 2-4 simulated reader threads (real OS threads released one at a time by a PRNG-driven scheduler at the Log/Cache seam points inside StorageResolver::get) x resolver sharing {shared, per thread, per call} x cache modes x eviction faults; every answer compared with the answer of the same call on a fresh uncached document, non-matching answers must be explained by a sequential order; panics, deadlocks (exact, with wait-for cycle), step budget and leftover recursion-guard entries are invariants. Sampling, not proof.",
   note="Preemption only at seam points (atomic between them); blocking on in-process cache entries / OnceCell is simulated; real SyncCache non-blocking paths. Trusted: the harness scheduler, digests and the independent document writer."),
}
NA_PURE = {
 "C03": "pure function text -> value (lexer/parser); no schedule, call history, clock or environment fault in the statement — generator + oracle territory, not simulation",
 "C04": "pure function value -> bytes -> value; the only seam (impl io::Write) is always a Vec<u8> inside the library",
 "C05": "pure function of (bytes, filter chain, parameters), partly exhaustive tables; no state, timing or fault to simulate",
 "C06": "pure function of (file, password); no state, timing or interleaving",
 "C07": "pure function of the page tree shape; no state, timing or fault",
 "C08": "pure function ops -> bytes -> ops",
 "C10": "builder drives the Updater in one fixed library-chosen order; observable is a pure function page list -> bytes",
 "C11": "pure metamorphic relation between two stored forms of one value",
 "C15": "pure per-model round trip value -> dictionary -> value",
 "C16": "pure per-byte-string encoder/decoder inversion",
 "C17": "pure metamorphic relation file vs prefix + file",
 "C18": "pure function of the document and parse mode",
 "C19": "pure functions of a width array / a code-to-text map",
 "C20": "one caller, one fixed sequence of library-chosen steps; pure function of (source, page subset)",
}
PENDING = {}
for pid in ["C01","C02","C09","C12","C14"]:
    if pid not in CLAIMED:
        PENDING[pid] = "simulation target per DESIGN.md §2, check not built yet in this round (no claim is made until it is)"
checks = []
for pid, c in sorted(CLAIMED.items()):
    checks.append({
      "property_id": pid,
      "quick_cmd": f"./check {pid} quick",
      "thorough_cmd": f"./check {pid} thorough",
      "evidence_file": f"/verif/evidence/{pid}.json",
      "replay_cmd_template": f"./check {pid} --replay {{path}}",
      "engine": "pdfsim",
      "level_claimed": {"category": c["level"], "text": c["text"], "design_ref": c["design"]},
      "level_note": c["note"],
      "technique": c["technique"],
    })
na = [{"property_id": k, "reason": v} for k, v in sorted({**NA_PURE, **PENDING}.items())]
m = {
 "version": 1,
 "setup_cmd": "./check build",
 "hooks": {
  "guard": "--cfg pdf_rs_pdf_verif",
  "enable": "rustflags --cfg pdf_rs_pdf_verif in the generated .cargo/config.toml of the harness build instance (tools/instance.sh); never a cargo feature; /repo's manifests and lock file stay untouched",
  "baseline_off_cmd": "cd /repo && cargo test --workspace --no-fail-fast --offline",
  "source_commits": ["56ee52e", "3e0cf5f", "0b7773d"],
  "add_only": True
 },
 "engines": [
  {"name": "pdfsim", "path": "/verif/sim", "serves_properties": sorted(CLAIMED.keys()),
   "kind_free_text": "deterministic simulator: seeded PRNG decides documents, operations, faults and every context switch; supervisor + worker processes; replay files store decisions"},
  {"name": "miri_c13", "path": "/verif/sim/src/bin/miri_c13.rs", "serves_properties": ["C13"],
   "kind_free_text": "the C13 scenarios with plain std threads under cargo +nightly miri run -Zmiri-many-seeds (deterministic interpreter with a seeded scheduler; real SyncCache condvar path, OnceCell, Mutex; data-race / deadlock detection); invoked by ./check C13"}
 ],
 "checks": checks,
 "notes": "exit 0 = held on everything explored (KNOWN-FINDING lines possible), 1 = VIOLATION line(s), 2 = harness error. VERIF_SEED (default 1), VERIF_TIER, VERIF_WORKERS, PDF_REPO honoured. Known findings: /verif/known_findings.jsonl.",
 "not_applicable": na,
}
json.dump(m, open('/verif/MANIFEST.json','w'), indent=1)
print("wrote MANIFEST.json:", [c['property_id'] for c in checks])
