#!/bin/bash
# Generates (idempotently) the build instance for the harness against $PDF_REPO (default /repo).
# Prints the instance directory. The shadow manifest gives the crate `pdf` the sources of the
# repository's *working tree*; /repo's own Cargo.toml / Cargo.lock are never touched.
set -euo pipefail
VERIF="$(cd "$(dirname "${BASH_SOURCE[0]}")/.." && pwd)"
PDF_REPO="${PDF_REPO:-/repo}"
PDF_REPO="$(cd "$PDF_REPO" && pwd)"
if [ "$PDF_REPO" = "/repo" ]; then key=default; else key="$(printf '%s' "$PDF_REPO" | md5sum | cut -c1-12)"; fi
INST="$VERIF/.work/inst-$key"
mkdir -p "$INST/shadow/pdf" "$INST/.cargo"
gen() { # template -> file, only rewritten when content changes (keeps cargo fingerprints stable)
  local tmp; tmp="$(mktemp "$INST/.gen.XXXXXX")"
  sed -e "s|@VERIF@|$VERIF|g" -e "s|@PDF_REPO@|$PDF_REPO|g" "$1" > "$tmp"
  if [ -f "$2" ] && cmp -s "$tmp" "$2"; then rm -f "$tmp"; else mv "$tmp" "$2"; fi
}
gen "$VERIF/sim/templates/pdfsim.Cargo.toml.in" "$INST/Cargo.toml"
gen "$VERIF/sim/templates/pdf.Cargo.toml.in" "$INST/shadow/pdf/Cargo.toml"
# The repository's manifest is authoritative for the dependency list; refuse to run on drift.
if ! diff <(sed -n '/^\[dependencies\]/,/^\[dev-dependencies\]/p' "$PDF_REPO/pdf/Cargo.toml" | grep -v '^pdf_derive' | grep -v '^\[' | grep -v '^$') \
          <(sed -n '/^\[dependencies\]/,$p' "$INST/shadow/pdf/Cargo.toml" | grep -v '^pdf_derive' | grep -v '^\[' | grep -v '^$') >/dev/null; then
  echo "HARNESS-ERROR: $PDF_REPO/pdf/Cargo.toml dependency list differs from the shadow manifest template" >&2
  exit 2
fi
if [ ! -f "$INST/Cargo.lock" ]; then cp "$VERIF/sim/Cargo.lock" "$INST/Cargo.lock"; fi
cat > "$INST/.cargo/config.toml" <<CFG
[net]
offline = true
[build]
rustflags = ["--cfg", "pdf_rs_pdf_verif", "-Aunexpected_cfgs", "-Awarnings"]
CFG
echo "$INST"
