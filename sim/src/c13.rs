//! C13 — concurrent readers get the answers sequential readers would (DESIGN §4.1).

use crate::digest::Answer;
use crate::docs::{Doc, Pool};
use crate::families::Family;
use crate::framework::*;
use crate::ops::{self, ObjKind, Op, SimFile, Ty};
use crate::rng::{run_seed, Hasher64, Rng};
use crate::sched::{self, Kind, Policy, Sched};
use crate::seams::SimCtl;
use pdf::object::Resolve;
use serde_json::{json, Value as J};
use std::collections::BTreeMap;
use std::sync::atomic::Ordering;
use std::sync::Arc;

#[derive(Clone, Copy, Debug, PartialEq, Eq)]
pub enum Sharing {
    Shared,
    PerThread,
    PerCall,
}
impl Sharing {
    fn name(self) -> &'static str {
        match self {
            Sharing::Shared => "shared",
            Sharing::PerThread => "per_thread",
            Sharing::PerCall => "per_call",
        }
    }
    fn parse(s: &str) -> Option<Sharing> {
        Some(match s {
            "shared" => Sharing::Shared,
            "per_thread" => Sharing::PerThread,
            "per_call" => Sharing::PerCall,
            _ => return None,
        })
    }
}

#[derive(Clone)]
pub struct Case {
    pub doc: Arc<Doc>,
    pub tolerant: bool,
    pub obj_cache: bool,
    pub stm_cache: bool,
    pub sharing: Sharing,
    pub threads: Vec<Vec<Op>>,
    /// eviction faults, as event counts (gets + resolves) after load
    pub evict_at: Vec<u64>,
    pub policy: Policy,
    pub sched_seed: u64,
    pub decisions: Vec<u8>,
    /// keys whose raw resolve succeeds alone (eligible for the end-of-thread guard probe)
    pub probe_ok: Vec<u64>,
    /// replay only: the thread id handed out just before the simulated threads were spawned
    pub thread_ids_from: Option<u64>,
}

impl Case {
    pub fn to_json(&self, decisions: &[u8]) -> J {
        json!({
            "property": "C13",
            "doc": self.doc.to_json(),
            "tolerant": self.tolerant,
            "obj_cache": self.obj_cache,
            "stm_cache": self.stm_cache,
            "sharing": self.sharing.name(),
            "threads": self.threads.iter().map(|t| t.iter().map(|o| o.to_json()).collect::<Vec<_>>()).collect::<Vec<_>>(),
            "evict_at": self.evict_at,
            "decisions": decisions,
            "probe_ok": self.probe_ok,
            "thread_ids_from": self.thread_ids_from,
        })
    }
    pub fn from_json(j: &J, repo: &str) -> Option<Case> {
        let threads = j.get("threads")?.as_array()?.iter().map(|t| t.as_array().map(|a| a.iter().filter_map(Op::from_json).collect::<Vec<_>>())).collect::<Option<Vec<_>>>()?;
        Some(Case {
            doc: Arc::new(Doc::from_json(j.get("doc")?, repo)?),
            tolerant: j.get("tolerant")?.as_bool()?,
            obj_cache: j.get("obj_cache")?.as_bool()?,
            stm_cache: j.get("stm_cache")?.as_bool()?,
            sharing: Sharing::parse(j.get("sharing")?.as_str()?)?,
            threads,
            evict_at: j.get("evict_at")?.as_array()?.iter().filter_map(|x| x.as_u64()).collect(),
            policy: Policy::Replay,
            sched_seed: 0,
            decisions: j.get("decisions")?.as_array()?.iter().filter_map(|x| x.as_u64()).map(|x| x as u8).collect(),
            probe_ok: j.get("probe_ok").and_then(|x| x.as_array()).map(|a| a.iter().filter_map(|x| x.as_u64()).collect()).unwrap_or_default(),
            thread_ids_from: j.get("thread_ids_from").and_then(|x| x.as_u64()),
        })
    }
}

pub struct Outcome {
    pub answers: Vec<Option<Vec<Answer>>>,
    pub panics: Vec<String>,
    pub deadlock: Option<sched::Deadlock>,
    pub budget_exceeded: bool,
    pub decisions: Vec<u8>,
    pub trace_hash: u64,
    pub stats: sched::SchedStats,
    pub probe_failures: Vec<String>,
    pub evictions_fired: u64,
    pub computes: u64,
    pub compute_overlap: u64,
    pub load_error: Option<String>,
    /// the thread id handed out just before the simulated threads were spawned
    pub thread_probe: u64,
}

fn run_ops<R: Resolve>(file: &SimFile, res: &R, own: bool, ops: &[Op], probe_keys: &[u64], out: &mut Vec<Answer>) {
    for op in ops {
        sched::yield_here(Kind::OpBoundary, 0);
        out.push(ops::exec(file, res, own, op));
    }
    let _ = probe_keys;
}

pub fn run_case(case: &Case) -> Outcome {
    let ctl = SimCtl::new(case.obj_cache, case.stm_cache);
    clear_last_panic();
    let file = match ops::open(&case.doc.bytes, &ctl, case.tolerant, &case.doc.password) {
        Ok(f) => f,
        Err(e) => {
            return Outcome {
                answers: vec![],
                panics: vec![],
                deadlock: None,
                budget_exceeded: false,
                decisions: vec![],
                trace_hash: 0,
                stats: Default::default(),
                probe_failures: vec![],
                evictions_fired: 0,
                computes: 0,
                compute_overlap: 0,
                load_error: Some(crate::digest::error_kind(&e)),
                thread_probe: 0,
            }
        }
    };
    let base = ctl.events();
    *ctl.evict_at.lock().unwrap() = case.evict_at.iter().map(|e| base + e).collect();
    let n = case.threads.len();
    let sched = Sched::new(n, Rng::new(case.sched_seed), case.policy.clone(), case.decisions.clone(), 20_000);
    let shared = file.resolver();
    let file_ref = &file;
    let shared_ref = &shared;
    let sharing = case.sharing;
    let probe_keys: Vec<Vec<u64>> = case.threads.iter().map(|ops| {
        let mut keys: Vec<u64> = ops.iter().filter_map(|o| match o {
            Op::Resolve(i) | Op::Get(_, i) | Op::StreamData(i) | Op::RawImage(i) | Op::ImageData(i) | Op::FormOps(i) | Op::ImageStreamData(i) => Some(*i),
            _ => None,
        }).filter(|k| case.probe_ok.contains(k)).collect();
        keys.sort();
        keys.dedup();
        keys.truncate(3);
        keys
    }).collect();
    let bodies: Vec<Box<dyn FnOnce(usize) -> Vec<Answer> + Send + '_>> = case
        .threads
        .iter()
        .zip(probe_keys.iter())
        .map(|(ops, pk)| {
            let ops: &[Op] = ops;
            let pk: &[u64] = pk;
            let b: Box<dyn FnOnce(usize) -> Vec<Answer> + Send + '_> = Box::new(move |_tid| {
                let mut out = vec![];
                match sharing {
                    Sharing::Shared => run_ops(file_ref, shared_ref, false, ops, pk, &mut out),
                    Sharing::PerThread => {
                        let r = file_ref.resolver();
                        run_ops(file_ref, &r, false, ops, pk, &mut out)
                    }
                    Sharing::PerCall => {
                        for op in ops {
                            sched::yield_here(Kind::OpBoundary, 0);
                            let r = file_ref.resolver();
                            out.push(ops::exec(file_ref, &r, true, op));
                        }
                    }
                }
                out
            });
            b
        })
        .collect();
    let thread_probe = match case.thread_ids_from {
        Some(t) => sched::advance_thread_ids_to(t),
        None => sched::thread_id_probe(),
    };
    let (results, ro) = sched.run(bodies, 64 << 20);
    let mut answers = vec![];
    let mut panics = vec![];
    for r in results {
        match r {
            Some(Ok(a)) => answers.push(Some(a)),
            Some(Err(e)) => {
                answers.push(None);
                if !e.is::<sched::SimAbort>() {
                    let msg = if let Some(s) = e.downcast_ref::<&str>() {
                        s.to_string()
                    } else if let Some(s) = e.downcast_ref::<String>() {
                        s.clone()
                    } else {
                        "<panic>".into()
                    };
                    panics.push(msg);
                }
            }
            None => answers.push(None),
        }
    }
    let mut probe_failures = vec![];
    for a in answers.iter().flatten() {
        for x in a.iter() {
            if x.text.starts_with("PROBE-FAIL") {
                probe_failures.push(x.text.clone());
            }
        }
    }
    // probe entries are not answers
    for a in answers.iter_mut().flatten() {
        a.retain(|x| !x.text.starts_with("PROBE"));
    }
    Outcome {
        answers,
        panics,
        deadlock: ro.deadlock,
        budget_exceeded: ro.budget_exceeded,
        decisions: ro.decisions,
        trace_hash: ro.trace_hash,
        stats: ro.stats,
        probe_failures,
        evictions_fired: ctl.evictions_fired.load(Ordering::Relaxed),
        computes: ctl.computes.load(Ordering::Relaxed),
        compute_overlap: ctl.compute_overlap.load(Ordering::Relaxed),
        load_error: None,
        thread_probe,
    }
}

/// Sequential execution of `order` (thread index per step) on a fresh document of the same
/// configuration, without scheduler; returns per-thread answers. Stops early at the first answer
/// that differs from `expect` when given.
fn run_sequential(case: &Case, order: &[usize], expect: Option<&[Option<Vec<Answer>>]>, evict_before: &[bool]) -> Option<Vec<Vec<Answer>>> {
    let ctl = SimCtl::new(case.obj_cache, case.stm_cache);
    let file = ops::open(&case.doc.bytes, &ctl, case.tolerant, &case.doc.password).ok()?;
    let shared = file.resolver();
    let per_thread: Vec<_> = (0..case.threads.len()).map(|_| file.resolver()).collect();
    let mut pos = vec![0usize; case.threads.len()];
    let mut out: Vec<Vec<Answer>> = vec![vec![]; case.threads.len()];
    for (step, &t) in order.iter().enumerate() {
        if evict_before.get(step).cloned().unwrap_or(false) {
            ctl.evict();
        }
        let op = &case.threads[t][pos[t]];
        let a = match case.sharing {
            Sharing::Shared => ops::exec(&file, &shared, false, op),
            Sharing::PerThread => ops::exec(&file, &per_thread[t], false, op),
            Sharing::PerCall => {
                let r = file.resolver();
                ops::exec(&file, &r, true, op)
            }
        };
        if let Some(exp) = expect {
            if let Some(Some(e)) = exp.get(t) {
                if let Some(ea) = e.get(pos[t]) {
                    if !ea.same(&a) {
                        return None;
                    }
                }
            }
        }
        out[t].push(a);
        pos[t] += 1;
    }
    Some(out)
}

/// Is there a sequential order (interleaving of the threads' program orders) on a fresh document of
/// the same configuration that produces all observed answers? Some(true/false) when the search was
/// complete, None when it hit its budget.
fn explained_sequentially(case: &Case, observed: &[Option<Vec<Answer>>], with_evictions: bool) -> Option<bool> {
    let lens: Vec<usize> = case.threads.iter().map(|t| t.len()).collect();
    let total: usize = lens.iter().sum();
    let mut budget: i64 = 6000;
    fn dfs(case: &Case, observed: &[Option<Vec<Answer>>], lens: &[usize], order: &mut Vec<usize>, ev: &mut Vec<bool>, pos: &mut Vec<usize>, total: usize, budget: &mut i64, with_ev: bool) -> Option<bool> {
        if order.len() == total {
            return Some(true);
        }
        for t in 0..lens.len() {
            if pos[t] >= lens[t] {
                continue;
            }
            for e in if with_ev { vec![false, true] } else { vec![false] } {
                order.push(t);
                ev.push(e);
                pos[t] += 1;
                *budget -= order.len() as i64;
                if *budget < 0 {
                    return None;
                }
                let ok = run_sequential(case, order, Some(observed), ev).is_some();
                if ok {
                    match dfs(case, observed, lens, order, ev, pos, total, budget, with_ev) {
                        Some(true) => return Some(true),
                        None => return None,
                        Some(false) => {}
                    }
                }
                pos[t] -= 1;
                order.pop();
                ev.pop();
            }
        }
        Some(false)
    }
    let mut order = vec![];
    let mut ev = vec![];
    let mut pos = vec![0; lens.len()];
    dfs(case, observed, &lens, &mut order, &mut ev, &mut pos, total, &mut budget, with_evictions)
}

pub struct C13 {
    pool: Option<Pool>,
    alone: crate::alone::Alone,
    last_probe: u64,
}

impl C13 {
    pub fn new() -> C13 {
        C13 { pool: None, alone: crate::alone::Alone::new(), last_probe: 0 }
    }

    fn alone_answer(&mut self, doc: &Doc, tolerant: bool, op: &Op) -> Answer {
        self.alone.answer(doc, tolerant, op)
    }
    fn doc_has_cycle(&mut self, doc: &Doc) -> bool {
        self.alone.doc_has_cycle(doc)
    }

    fn gen_case(&mut self, ctx: &WorkerCtx, i: u64) -> Case {
        let mut rng = Rng::new(run_seed(ctx.verif_seed, "C13", i));
        if self.pool.is_none() {
            self.pool = Some(Pool::new(&ctx.repo, ctx.verif_seed));
        }
        let pool = self.pool.as_mut().unwrap();
        let gen_pool: u64 = if ctx.tier == Tier::Quick { 24 } else { 256 };
        let doc = match rng.below(10) {
            0..=3 => pool.generated(&Family::Rich, rng.below(gen_pool)),
            4 => pool.generated(&Family::RichEncrypted, rng.below(8)),
            5 => {
                match rng.below(3) {
                    0 => pool.generated(&Family::TwoLeaf, rng.below(4)),
                    1 => pool.generated(&Family::DeepTree, rng.below(4)),
                    _ => pool.generated(&Family::Dangling, rng.below(4)),
                }
            }
            6 | 7 => pool.generated(&Family::CyclicParents, rng.below(4)),
            _ => {
                let mut d = None;
                for _ in 0..8 {
                    let k = rng.usize(pool.corpus_len().max(1));
                    if let Some(c) = pool.corpus(k) {
                        if c.inv.loadable && (c.bytes.len() < 100_000 || rng.chance(1, 8)) {
                            d = Some(c);
                            break;
                        }
                    }
                }
                d.unwrap_or_else(|| pool.generated(&Family::Rich, 0))
            }
        };
        let max_threads = if ctx.tier == Tier::Quick { 3 } else { 4 };
        let n_threads = 2 + rng.usize(max_threads - 1);
        let max_ops = if ctx.tier == Tier::Quick || n_threads == 4 { 3 } else { 4 };
        // focus set: few objects, so that collisions are the norm
        let objs: Vec<(u64, ObjKind)> = doc.inv.objects.iter().cloned().filter(|(_, k)| *k != ObjKind::Unreadable).collect();
        let mut focus: Vec<(u64, ObjKind)> = vec![];
        let nf = 1 + rng.usize(3);
        for _ in 0..nf {
            if !objs.is_empty() {
                // bias towards typed kinds
                let mut c = *rng.pick(&objs);
                for _ in 0..3 {
                    if c.1 == ObjKind::Other || c.1 == ObjKind::Scalar {
                        c = *rng.pick(&objs);
                    }
                }
                focus.push(c);
            }
        }
        // in a deep page tree the interesting keys are the deepest ones (a cold typed load of a deep
        // leaf nests one load per ancestor): bias the focus set towards the highest-numbered page nodes
        if doc.family == "deep_tree" && rng.coin() {
            let mut pages: Vec<(u64, ObjKind)> = objs.iter().cloned().filter(|(_, k)| *k == ObjKind::Pages).collect();
            pages.sort();
            let top: Vec<(u64, ObjKind)> = pages.iter().rev().take(4).cloned().collect();
            if !top.is_empty() {
                focus = (0..2 + rng.usize(2)).map(|_| *rng.pick(&top)).collect();
            }
        }
        let n_pages = doc.inv.n_pages.max(1);
        let focus_page = rng.below(n_pages as u64) as u32;
        let mut threads = vec![];
        for _ in 0..n_threads {
            let k = 1 + rng.usize(max_ops);
            let mut ops_v = vec![];
            for _ in 0..k {
                let op = match rng.below(10) {
                    0..=5 if !focus.is_empty() => {
                        let (id, kind) = *rng.pick(&focus);
                        if rng.chance(1, 8) {
                            ops::wrong_op(id, kind, &mut rng)
                        } else {
                            let r = ops::right_ops(id, kind);
                            rng.pick(&r).clone()
                        }
                    }
                    6 => Op::GetPage(if rng.coin() { focus_page } else { rng.below(n_pages as u64 + 1) as u32 }),
                    7 => Op::PageWalk(focus_page),
                    8 => Op::LazyAnnots(focus_page),
                    _ => {
                        if rng.chance(1, 3) {
                            Op::Trees
                        } else {
                            Op::LazyFont(focus_page)
                        }
                    }
                };
                ops_v.push(op);
            }
            threads.push(ops_v);
        }
        let (obj_cache, stm_cache) = match rng.below(8) {
            0 => (false, false),
            1 => (true, false),
            2 => (false, true),
            _ => (true, true),
        };
        let sharing = match rng.below(3) {
            0 => Sharing::Shared,
            1 => Sharing::PerThread,
            _ => Sharing::PerCall,
        };
        let evict_at = if rng.chance(1, 4) { (0..1 + rng.usize(3)).map(|_| rng.below(60)).collect() } else { vec![] };
        let policy = match rng.below(3) {
            0 => Policy::Random,
            1 => Policy::Pct { change_points: (0..1 + rng.usize(3)).map(|_| rng.below(80)).collect() },
            _ => Policy::Preempt { at: (0..1 + rng.usize(2)).map(|_| rng.below(60)).collect() },
        };
        let tolerant = rng.chance(1, 3);
        // After its last call a thread must have left nothing on the resolver's recursion guard: each
        // thread that keeps its resolver ends with an ordinary typed load (as Primitive) of a key it
        // touched; a leftover guard entry shows as "Recursive reference" where the alone answer is Ok.
        if sharing != Sharing::PerCall {
            for t in threads.iter_mut() {
                let mut keys: Vec<u64> = t.iter().filter_map(|o| match o {
                    Op::Resolve(i) | Op::Get(_, i) | Op::StreamData(i) | Op::RawImage(i) | Op::ImageData(i) | Op::FormOps(i) | Op::ImageStreamData(i) => Some(*i),
                    _ => None,
                }).collect();
                keys.sort();
                keys.dedup();
                if let Some(k) = keys.first() {
                    if rng.coin() {
                        t.push(Op::Get(Ty::Prim, *k));
                    }
                }
            }
        }
        let mut probe_ok = vec![];
        for op in threads.iter().flatten() {
            if let Op::Resolve(i) | Op::Get(_, i) | Op::StreamData(i) | Op::RawImage(i) | Op::ImageData(i) | Op::FormOps(i) | Op::ImageStreamData(i) = op {
                if !probe_ok.contains(i) && self.alone_answer(&doc, tolerant, &Op::Resolve(*i)).ok {
                    probe_ok.push(*i);
                }
            }
        }
        Case { doc, tolerant, obj_cache, stm_cache, sharing, threads, evict_at, policy, sched_seed: rng.next_u64(), decisions: vec![], probe_ok, thread_ids_from: None }
    }

    /// Evaluate the oracle on one executed case.
    fn judge(&mut self, case: &Case, out: &Outcome, rep: &mut RunReport) -> Vec<(String, String)> {
        let mut v: Vec<(String, String)> = vec![];
        if let Some(e) = &out.load_error {
            // the alone run fails to load as well? then nothing to compare
            rep.count("load_errors", 1);
            let _ = e;
            return v;
        }
        if !out.panics.is_empty() {
            let site = take_last_panic().unwrap_or_else(|| format!("panic {}", out.panics[0]));
            v.push((format!("panic: {}", panic_signature(&site)), format!("{} (sharing={}, obj_cache={})", site, case.sharing.name(), case.obj_cache)));
        }
        if let Some(d) = &out.deadlock {
            rep.count("deadlocks", 1);
            let mut kinds: Vec<String> = d.waits.iter().map(|(_, r, _)| format!("{:?}", r.0)).collect();
            kinds.sort();
            kinds.dedup();
            let class = if self.doc_has_cycle(&case.doc) { "document has a typed reference cycle" } else { "acyclic document" };
            v.push((format!("deadlock: waits on {} / {}", kinds.join("+"), class), format!("wait-for: {:?}", d.waits)));
        }
        if out.budget_exceeded {
            v.push(("step budget exceeded (20000 scheduler steps)".into(), String::new()));
        }
        for p in &out.probe_failures {
            v.push(("recursion guard left non-empty after a thread's last call".to_string(), p.clone()));
        }
        if !v.is_empty() {
            return v;
        }
        // answers
        let mut mismatch: Option<(Op, Answer, Answer)> = None;
        for (t, ans) in out.answers.iter().enumerate() {
            if let Some(ans) = ans {
                for (k, a) in ans.iter().enumerate() {
                    let op = &case.threads[t][k];
                    let alone = self.alone_answer(&case.doc, case.tolerant, op);
                    if !alone.same(a) && mismatch.is_none() {
                        mismatch = Some((op.clone(), alone, a.clone()));
                    }
                }
            }
        }
        if let Some((op, alone, got)) = mismatch {
            rep.count("answer_differs_from_alone", 1);
            let cls = |a: &Answer| if a.ok { "Ok".to_string() } else { a.text.clone() };
            // Order dependence of cached answers exists only in the territory of known finding K2
            // (tolerant mode, document with a typed reference cycle; C12 shows the caches invisible
            // everywhere else). Outside it every answer must simply equal the alone answer - with or
            // without eviction faults, no sequential explanation accepted.
            if !(case.tolerant && self.doc_has_cycle(&case.doc)) {
                v.push((
                    format!("answer differs from the alone answer: {} alone={} concurrent={}", op.kind(), cls(&alone), cls(&got)),
                    format!("op {:?}: alone {} / concurrent {}", op, alone.text, got.text),
                ));
                return v;
            }
            let with_ev = !case.evict_at.is_empty();
            match explained_sequentially(case, &out.answers, with_ev) {
                Some(true) => rep.count("explained_sequentially", 1),
                None => rep.count("explanation_search_inconclusive", 1),
                Some(false) => {
                    if with_ev {
                        // mid-operation evictions are not part of the sequential explanation space
                        rep.count("unexplained_under_eviction", 1);
                    } else {
                        v.push((
                            format!("non-sequential answer: {} alone={} concurrent={}", op.kind(), cls(&alone), cls(&got)),
                            format!("op {:?}: alone {} / concurrent {}", op, alone.text, got.text),
                        ));
                    }
                }
            }
        }
        v
    }

    fn shrink(&mut self, case: &Case, decisions: &[u8], sig: &str, detail: &mut String) -> (Case, Vec<u8>) {
        let mut best = case.clone();
        best.policy = Policy::Replay;
        best.decisions = decisions.to_vec();
        let mut budget = 150;
        let mut check = |me: &mut C13, c: &Case| -> Option<Vec<u8>> {
            let out = run_case(c);
            let mut rep = RunReport::default();
            let v = me.judge(c, &out, &mut rep);
            match v.iter().find(|(s, _)| s == sig) {
                Some((_, d)) => {
                    *detail = d.clone();
                    me.last_probe = out.thread_probe;
                    Some(out.decisions)
                }
                None => None,
            }
        };
        // confirm the replay form reproduces at all
        match check(self, &best) {
            Some(d) => best.decisions = d,
            None => return (case.clone(), decisions.to_vec()),
        }
        let mut progress = true;
        while progress && budget > 0 {
            progress = false;
            // drop evictions
            if !best.evict_at.is_empty() {
                let mut c = best.clone();
                c.evict_at.clear();
                budget -= 1;
                if let Some(d) = check(self, &c) {
                    c.decisions = d;
                    best = c;
                    progress = true;
                }
            }
            // drop an op
            'ops: for t in 0..best.threads.len() {
                for k in 0..best.threads[t].len() {
                    if best.threads.iter().map(|x| x.len()).sum::<usize>() <= 1 || budget <= 0 {
                        break 'ops;
                    }
                    let mut c = best.clone();
                    c.threads[t].remove(k);
                    // decisions no longer line up exactly; the replay policy falls back deterministically
                    budget -= 1;
                    if let Some(d) = check(self, &c) {
                        c.decisions = d;
                        best = c;
                        progress = true;
                        break 'ops;
                    }
                }
            }
            // drop an empty thread
            if let Some(t) = best.threads.iter().position(|x| x.is_empty()) {
                if best.threads.len() > 1 {
                    let mut c = best.clone();
                    c.threads.remove(t);
                    c.decisions = c.decisions.iter().filter(|&&d| d as usize != t).map(|&d| if d as usize > t { d - 1 } else { d }).collect();
                    budget -= 1;
                    if let Some(d) = check(self, &c) {
                        c.decisions = d;
                        best = c;
                        progress = true;
                    }
                }
            }
            // remove context switches: make decision k equal to decision k-1
            let mut k = 1;
            while k < best.decisions.len() && budget > 0 {
                if best.decisions[k] != best.decisions[k - 1] {
                    let mut c = best.clone();
                    c.decisions[k] = c.decisions[k - 1];
                    budget -= 1;
                    if let Some(d) = check(self, &c) {
                        if d.windows(2).filter(|w| w[0] != w[1]).count() < best.decisions.windows(2).filter(|w| w[0] != w[1]).count() {
                            c.decisions = d;
                            best = c;
                            progress = true;
                            continue;
                        }
                    }
                }
                k += 1;
            }
        }
        let d = best.decisions.clone();
        (best, d)
    }
}

impl Check for C13 {
    fn info(&self) -> CheckInfo {
        CheckInfo {
            id: "C13",
            level: "exploration",
            rule: "one run = (document, strict|tolerant, cache mode, resolver sharing, 2-4 threads x 1-4 read ops, scheduling policy, eviction faults); every context switch is decided by the seeded scheduler at the Log/Cache seam points of StorageResolver::get; a run is non-trivial when a context switch fell between a recursion-guard push and its pop; distinct = distinct hash of the (thread, seam point, key) sequence + answers",
            assumptions: vec![
                "baton engine: preemption only at the seam points (log_get, cache entry/exit, compute start/end, load_object, Lazy enter/exit, op boundary); code between two seam points runs atomically".into(),
                "blocking on an in-process cache entry and on a OnceCell initialiser is simulated by the scheduler (the real SyncCache condvar wait path does not run in this engine)".into(),
                "alone answer = the same call on a freshly opened uncached document, single-threaded; every answer must equal it. Only in the territory of known finding K2 (tolerant mode + document with a typed reference cycle) a difference that some sequential order on the same cached configuration reproduces is counted as order dependence (C12/K2) instead".into(),
                "in that K2 territory, unexplained differences in runs with eviction faults are counted, not reported (mid-operation eviction is outside the sequential explanation space)".into(),
            ],
            components_real: vec!["pdf crate (all of it)", "pdf_derive", "globalcache::sync::SyncCache get/clear/clean (non-blocking paths)", "std threads, std::sync::Mutex in StorageResolver"],
            components_stub: vec!["wait on an in-process cache entry (simulated block)", "wait on a OnceCell being initialised (simulated block)", "NoCache replaced by an equivalent that yields"],
            per_run_timeout_s: 60,
            required_probes: vec!["switch_inside_guard_runs", "cache_waits", "evictions_fired", "wrong_type_ops", "same_key_compute_overlap"],
            exhaustive: false,
        }
    }
    fn total_runs(&self, tier: Tier) -> u64 {
        match tier {
            Tier::Quick => 50_000,
            Tier::Thorough => 2_000_000,
        }
    }
    fn run(&mut self, ctx: &WorkerCtx, i: u64) -> RunReport {
        let mut rep = RunReport::default();
        let case = self.gen_case(ctx, i);
        if std::env::var("VERIF_DEBUG").is_ok() {
            let mut j = case.to_json(&[]);
            j["doc"] = json!(case.doc.label);
            eprintln!("CASE {} {} policy={:?}", i, j, case.policy);
        }
        let out = run_case(&case);
        let mut h = Hasher64::new();
        h.u64(out.trace_hash);
        for a in out.answers.iter().flatten().flatten() {
            h.u64(a.digest);
        }
        h.u64(case.sharing as u64);
        rep.trace_hash = h.finish();
        rep.nontrivial = out.stats.switch_inside_guard;
        rep.count("scheduler_steps", out.stats.steps);
        rep.count("context_switches", out.stats.switches);
        rep.count("cache_waits", out.stats.waits);
        rep.count("lazy_waits", out.stats.lazy_waits);
        rep.count("evictions_fired", out.evictions_fired);
        rep.count("computes", out.computes);
        if out.stats.switch_inside_guard {
            rep.count("switch_inside_guard_runs", 1);
        }
        if out.compute_overlap > 0 {
            rep.count("same_key_compute_overlap", 1);
        }
        rep.count(&format!("sharing_{}", case.sharing.name()), 1);
        rep.count(
            match case.policy {
                Policy::Random => "policy_random",
                Policy::Pct { .. } => "policy_pct",
                Policy::Preempt { .. } => "policy_preempt",
                Policy::Replay => "policy_replay",
            },
            1,
        );
        let wrong = case.threads.iter().flatten().filter(|o| match o {
            Op::Get(t, id) => !ops::right_ops(*id, case.doc.inv.objects.iter().find(|(i, _)| i == id).map(|x| x.1).unwrap_or(ObjKind::Other)).contains(&Op::Get(*t, *id)),
            _ => false,
        }).count();
        rep.count("wrong_type_ops", wrong as u64);
        let verdicts = self.judge(&case, &out, &mut rep);
        for (sig, mut detail) in verdicts {
            self.last_probe = out.thread_probe;
            let (mut c, d) = self.shrink(&case, &out.decisions, &sig, &mut detail);
            // the run that showed the (minimised) violation started its threads at this thread id
            c.thread_ids_from = Some(self.last_probe);
            rep.violations.push(Violation { signature: sig, detail, case: c.to_json(&d) });
        }
        if i < 3 {
            rep.sample = Some(json!({"run": i, "case": {"doc": case.doc.label, "tolerant": case.tolerant, "obj_cache": case.obj_cache, "stm_cache": case.stm_cache, "sharing": case.sharing.name(),
                "threads": case.threads.iter().map(|t| t.iter().map(|o| o.to_json()).collect::<Vec<_>>()).collect::<Vec<_>>(), "evict_at": case.evict_at, "policy": format!("{:?}", case.policy)},
                "schedule": out.decisions, "steps": out.stats.steps, "switches": out.stats.switches}));
        }
        rep
    }
    fn replay(&mut self, ctx: &WorkerCtx, case: &J) -> Vec<Violation> {
        let c = match Case::from_json(case, &ctx.repo) {
            Some(c) => c,
            None => return vec![],
        };
        let out = run_case(&c);
        if std::env::var("VERIF_DEBUG").is_ok() {
            for (t, a) in out.answers.iter().enumerate() {
                for (k, x) in a.iter().flatten().enumerate() {
                    let alone = self.alone_answer(&c.doc, c.tolerant, &c.threads[t][k]);
                    eprintln!("T{} op{} {:?}\n   got   {:016x} {}\n   alone {:016x} {}", t, k, c.threads[t][k], x.digest, x.text, alone.digest, alone.text);
                }
            }
            eprintln!("decisions {:?} deadlock {:?} panics {:?}", out.decisions, out.deadlock, out.panics);
        }
        let mut rep = RunReport::default();
        self.judge(&c, &out, &mut rep).into_iter().map(|(s, d)| Violation { signature: s, detail: d, case: case.clone() }).collect()
    }
}
