//! C12 — caches are invisible (DESIGN §4.2): a cached document answers every call of every
//! history like a fresh uncached document answers that call alone.

use crate::alone::Alone;
use crate::digest::Answer;
use crate::docs::{Doc, Pool};
use crate::families::Family;
use crate::framework::*;
use crate::ops::{self, ObjKind, Op};
use crate::rng::{fnv64, run_seed, Hasher64, Rng};
use crate::seams::SimCtl;
use serde_json::{json, Value as J};
use std::sync::atomic::Ordering;
use std::sync::Arc;

#[derive(Clone)]
pub struct Case {
    pub doc: Arc<Doc>,
    pub tolerant: bool,
    pub obj_cache: bool,
    pub stm_cache: bool,
    pub ops: Vec<Op>,
    /// open a new resolver before op k (otherwise the previous one is reused)
    pub new_resolver: Vec<bool>,
    /// eviction fault between calls: before op k
    pub evict_before: Vec<bool>,
    /// eviction fault inside calls: at these event counts (gets + resolves after load)
    pub evict_at: Vec<u64>,
    /// File::set_options before op k: switches between strict and tolerant parsing
    pub switch_options: Vec<bool>,
    /// what the switch before op k changes: 0 (or absent) = strict <-> tolerant as a whole; 1 = only
    /// allow_missing_endobj; 2 = only allow_error_in_option; 3 = only allow_invalid_ops
    pub switch_kind: Vec<u8>,
}

impl Case {
    pub fn to_json(&self) -> J {
        json!({
            "property": "C12",
            "doc": self.doc.to_json(),
            "tolerant": self.tolerant,
            "obj_cache": self.obj_cache,
            "stm_cache": self.stm_cache,
            "ops": self.ops.iter().map(|o| o.to_json()).collect::<Vec<_>>(),
            "new_resolver": self.new_resolver,
            "evict_before": self.evict_before,
            "evict_at": self.evict_at,
            "switch_options": self.switch_options,
            "switch_kind": self.switch_kind,
        })
    }
    /// parse options (bits as in `ops::opts_from_bits`) in force when op k runs
    pub fn opts_at(&self, k: usize) -> u8 {
        let mut bits = if self.tolerant { ops::OPTS_TOLERANT } else { ops::OPTS_STRICT };
        for j in 0..=k {
            if self.switch_options.get(j).cloned().unwrap_or(false) {
                bits = match self.switch_kind.get(j).cloned().unwrap_or(0) {
                    1 => bits ^ 8,
                    2 => bits ^ 1,
                    3 => bits ^ 4,
                    _ => if bits == ops::OPTS_TOLERANT { ops::OPTS_STRICT } else { ops::OPTS_TOLERANT },
                };
            }
        }
        bits
    }
    /// parse mode in force when op k runs
    pub fn tolerant_at(&self, k: usize) -> bool {
        self.opts_at(k) & 1 != 0
    }
    pub fn from_json(j: &J, repo: &str) -> Option<Case> {
        let bools = |k: &str| -> Option<Vec<bool>> { Some(j.get(k)?.as_array()?.iter().map(|x| x.as_bool().unwrap_or(false)).collect()) };
        Some(Case {
            doc: Arc::new(Doc::from_json(j.get("doc")?, repo)?),
            tolerant: j.get("tolerant")?.as_bool()?,
            obj_cache: j.get("obj_cache")?.as_bool()?,
            stm_cache: j.get("stm_cache")?.as_bool()?,
            ops: j.get("ops")?.as_array()?.iter().filter_map(Op::from_json).collect(),
            new_resolver: bools("new_resolver")?,
            evict_before: bools("evict_before")?,
            evict_at: j.get("evict_at")?.as_array()?.iter().filter_map(|x| x.as_u64()).collect(),
            switch_options: bools("switch_options").unwrap_or_default(),
            switch_kind: j.get("switch_kind").and_then(|x| x.as_array()).map(|a| a.iter().map(|x| x.as_u64().unwrap_or(0) as u8).collect()).unwrap_or_default(),
        })
    }
    fn summary(&self) -> J {
        json!({"doc": self.doc.label, "tolerant": self.tolerant, "obj_cache": self.obj_cache, "stm_cache": self.stm_cache,
            "ops": self.ops.iter().map(|o| o.to_json()).collect::<Vec<_>>(), "new_resolver": self.new_resolver, "evict_before": self.evict_before, "evict_at": self.evict_at, "switch_options": self.switch_options})
    }
}

pub struct Outcome {
    pub answers: Vec<Answer>,
    pub panic: Option<String>,
    pub evictions: u64,
    pub computes: u64,
    pub load_error: bool,
    pub load_error_text: String,
}

pub fn run_case(case: &Case) -> Outcome {
    let ctl = SimCtl::new(case.obj_cache, case.stm_cache);
    clear_last_panic();
    let mut file = match ops::open(&case.doc.bytes, &ctl, case.tolerant, &case.doc.password) {
        Ok(f) => f,
        Err(e) => return Outcome { answers: vec![], panic: None, evictions: 0, computes: 0, load_error: true, load_error_text: crate::digest::Answer::err(&e).text },
    };
    let base = ctl.events();
    *ctl.evict_at.lock().unwrap() = case.evict_at.iter().map(|e| base + e).collect();
    let mut answers = vec![];
    let r = std::panic::catch_unwind(std::panic::AssertUnwindSafe(|| {
        // histories are cut at option switches: set_options needs the document exclusively
        let mut k = 0;
        while k < case.ops.len() {
            if case.switch_options.get(k).cloned().unwrap_or(false) {
                file.set_options(ops::opts_from_bits(case.opts_at(k)));
            }
            let mut resolver = file.resolver();
            loop {
                if case.evict_before.get(k).cloned().unwrap_or(false) {
                    ctl.evict();
                }
                if case.new_resolver.get(k).cloned().unwrap_or(false) {
                    resolver = file.resolver();
                }
                answers.push(ops::exec(&file, &resolver, false, &case.ops[k]));
                k += 1;
                if k >= case.ops.len() || case.switch_options.get(k).cloned().unwrap_or(false) {
                    break;
                }
            }
        }
    }));
    let panic = match r {
        Ok(()) => None,
        Err(_) => Some(take_last_panic().unwrap_or_else(|| "panic".into())),
    };
    Outcome { answers, panic, evictions: ctl.evictions_fired.load(Ordering::Relaxed), computes: ctl.computes.load(Ordering::Relaxed), load_error: false, load_error_text: String::new() }
}

// ---------------------------------------------------------------------------------------------

#[derive(Clone)]
struct EnumItem {
    doc: usize,
    /// the call kinds available for one object (or one page)
    kinds: Vec<Op>,
}

/// A generated rich document in which every second font, image, form, annotation, resource
/// dictionary and non-root page-tree node is not closed by `endobj` (the keyword is blanked, all
/// offsets stay). The inventory is that of the intact document: in strict mode those objects do
/// not read at all.
fn sloppy_doc(pool: &mut Pool, k: u64) -> Option<Arc<Doc>> {
    let base = pool.generated(&Family::Rich, 200 + k);
    if !base.inv.loadable {
        return None;
    }
    let mut bytes: Vec<u8> = (*base.bytes).clone();
    let find = |hay: &[u8], from: usize, needle: &[u8]| hay.get(from..).and_then(|h| h.windows(needle.len()).position(|w| w == needle)).map(|p| p + from);
    let mut blanked = 0;
    let mut nth = 0;
    for (id, kind) in &base.inv.objects {
        if !matches!(kind, ObjKind::Font | ObjKind::Image | ObjKind::Form | ObjKind::Annot | ObjKind::Resources | ObjKind::Pages) {
            continue;
        }
        let header = format!("\n{} 0 obj\n", id);
        let start = match find(&bytes, 0, header.as_bytes()) {
            Some(p) => p,
            None => continue, // a member of an object stream
        };
        let end = match find(&bytes, start + header.len(), b"\nendobj\n") {
            Some(p) => p,
            None => continue,
        };
        let text = &bytes[start..end];
        if *kind == ObjKind::Pages && find(text, 0, b"/Parent").is_none() {
            continue; // the root of the page tree is read while the document opens
        }
        nth += 1;
        if nth % 2 == 0 {
            continue;
        }
        for b in &mut bytes[end + 1..end + 7] {
            *b = b' ';
        }
        blanked += 1;
    }
    if blanked == 0 {
        return None;
    }
    let mut d = (*base).clone();
    d.label = format!("sloppy:{}", k);
    d.family = "sloppy".into();
    d.bytes = Arc::new(bytes);
    // must still open in strict mode (nothing read at open time was touched)
    let ctl = SimCtl::new(false, false);
    if ops::open(&d.bytes, &ctl, false, &d.password).is_err() {
        return None;
    }
    Some(Arc::new(d))
}

/// A rich document under a cross-reference stream whose catalog is stored in the object stream
/// like most other objects; k = 0, 1 plain, 2.. encrypted (RC4 revisions 2, 3, 4 of the handler).
fn rootstm_doc(verif_seed: u64, k: u64) -> Option<Arc<Doc>> {
    let mut rng = Rng::new(run_seed(verif_seed, "doc/rootstm", k));
    let mut layout = crate::docgen::Layout::random(&mut rng);
    layout.xref_stream = true;
    layout.compress = true;
    layout.compress_root = true;
    layout.encrypt = match k {
        0 | 1 => None,
        2 => Some((2, 5)),
        3 => Some((3, 5)),
        4 => Some((3, 16)),
        _ => Some((4, 16)),
    };
    let o = crate::families::RichOpts::random(&mut rng);
    let spec = crate::families::rich(&mut rng, &o, &layout);
    let w = crate::docgen::write_doc(&spec);
    if let Err(e) = crate::docgen::self_check(&spec, &w) {
        eprintln!("HARNESS-ERROR: writer self-check failed (C12 rootstm document {}): {}", k, e);
        std::process::exit(2);
    }
    let d = Doc::from_bytes(&format!("rootstm:{}", k), "rootstm", w.bytes, b"");
    if d.inv.loadable {
        Some(Arc::new(d))
    } else {
        None
    }
}

pub struct C12 {
    pool: Option<Pool>,
    alone: Alone,
    docs: Vec<Arc<Doc>>,
    /// rich documents in which some objects are not closed by `endobj` (read only with
    /// allow_missing_endobj); used by the partial-option-switch batch only
    sloppy: Vec<Arc<Doc>>,
    /// rich documents whose catalog is a member of an object stream, plain and encrypted; used by one
    /// random run in sixteen
    rootstm: Vec<Arc<Doc>>,
    items: Vec<EnumItem>,
    /// prefix sums of cases per item
    starts: Vec<u64>,
    enum_total: u64,
    prepared_for: Option<Tier>,
}

const MODES: [(bool, bool); 3] = [(true, true), (true, false), (false, true)];

impl C12 {
    pub fn new() -> C12 {
        C12 { pool: None, alone: Alone::new(), docs: vec![], sloppy: vec![], rootstm: vec![], items: vec![], starts: vec![], enum_total: 0, prepared_for: None }
    }

    fn arity(tier: Tier) -> u32 {
        if tier == Tier::Quick {
            2
        } else {
            3
        }
    }

    fn prepare(&mut self, repo: &str, verif_seed: u64, tier: Tier) {
        if self.prepared_for == Some(tier) {
            return;
        }
        let mut pool = Pool::new(repo, verif_seed);
        let mut docs: Vec<Arc<Doc>> = vec![];
        let gen_n = if tier == Tier::Quick { 12 } else { 96 };
        for k in 0..gen_n {
            docs.push(pool.generated(&Family::Rich, k));
        }
        for k in 0..(if tier == Tier::Quick { 4 } else { 16 }) {
            docs.push(pool.generated(&Family::RichEncrypted, k));
        }
        docs.push(pool.generated(&Family::TwoLeaf, 0));
        for k in 0..4 {
            docs.push(pool.generated(&Family::DeepTree, k));
        }
        docs.push(pool.generated(&Family::CyclicParents, 0));
        docs.push(pool.generated(&Family::CyclicParents, 1));
        for k in 0..3 {
            docs.push(pool.generated(&Family::Dangling, k));
        }
        for k in 0..4 {
            docs.push(pool.generated(&Family::SharedHeader, k));
        }
        for k in 0..2 {
            docs.push(pool.generated(&Family::JbigCycle, k));
        }
        docs.push(pool.generated(&Family::LongParents, 0));
        for k in 0..2 {
            docs.push(pool.generated(&Family::IccCycle, k));
        }
        for k in 0..2 {
            docs.push(pool.generated(&Family::SelfKid, k));
        }
        // documents with an update history of their own (several sections, freed and reused numbers,
        // cross-reference streams that share an object number, stale object-stream members)
        for k in 0..(if tier == Tier::Quick { 8 } else { 48 }) {
            let mut rng = Rng::new(run_seed(verif_seed, "C12/history-doc", k));
            let h = crate::c02::gen_history(&mut rng, Tier::Thorough);
            let spec = crate::c02::compile(&h);
            let w = crate::docgen::write_doc(&spec);
            if crate::docgen::self_check(&spec, &w).is_err() {
                eprintln!("HARNESS-ERROR: writer self-check failed (C12 history document {})", k);
                std::process::exit(2);
            }
            let d = Doc::from_bytes(&format!("hist{}", k), "generated", w.bytes, b"");
            if d.inv.loadable {
                docs.push(Arc::new(d));
            }
        }
        for k in 0..pool.corpus_len() {
            if let Some(d) = pool.corpus(k) {
                if d.inv.loadable {
                    docs.push(d);
                }
            }
        }
        // kept apart from `docs` so that the cases drawn for them stay what they were
        self.sloppy = (0..4).filter_map(|k| sloppy_doc(&mut pool, k)).collect();
        self.rootstm = (0..6).filter_map(|k| rootstm_doc(verif_seed, k)).collect();
        let per_doc_objs = if tier == Tier::Quick { 24 } else { 160 };
        let mut items = vec![];
        for (di, d) in docs.iter().enumerate() {
            // deterministic sample of objects: order by a hash of (label, id)
            let mut objs: Vec<(u64, ObjKind)> = d.inv.objects.iter().cloned().filter(|(_, k)| *k != ObjKind::Unreadable).collect();
            objs.sort_by_key(|(id, k)| (if *k == ObjKind::Other || *k == ObjKind::Scalar { 1 } else { 0 }, fnv64(format!("{}/{}", d.label, id).as_bytes())));
            objs.truncate(per_doc_objs);
            for (id, kind) in objs {
                let mut kinds = ops::right_ops(id, kind);
                let mut r = Rng::new(fnv64(format!("wrong/{}/{}", d.label, id).as_bytes()));
                kinds.push(ops::wrong_op(id, kind, &mut r));
                items.push(EnumItem { doc: di, kinds });
            }
            for n in 0..d.inv.n_pages.min(if tier == Tier::Quick { 2 } else { 6 }) {
                items.push(EnumItem { doc: di, kinds: vec![Op::GetPage(n), Op::PageWalk(n), Op::LazyAnnots(n), Op::LazyFont(n), Op::Trees] });
            }
        }
        let arity = Self::arity(tier);
        let mut starts = vec![];
        let mut total = 0u64;
        for it in &items {
            starts.push(total);
            total += (it.kinds.len() as u64).pow(arity) * MODES.len() as u64 * 2;
        }
        self.pool = Some(pool);
        self.docs = docs;
        self.items = items;
        self.starts = starts;
        self.enum_total = total;
        self.prepared_for = Some(tier);
    }

    fn random_runs(tier: Tier) -> u64 {
        match tier {
            Tier::Quick => 100_000,
            Tier::Thorough => 2_000_000,
        }
    }

    fn enum_case(&self, tier: Tier, i: u64) -> Case {
        let idx = match self.starts.binary_search(&i) {
            Ok(k) => k,
            Err(k) => k - 1,
        };
        let it = &self.items[idx];
        let mut r = i - self.starts[idx];
        let tolerant = r % 2 == 1;
        r /= 2;
        let mode = MODES[(r % MODES.len() as u64) as usize];
        r /= MODES.len() as u64;
        let n = it.kinds.len() as u64;
        let mut ops_v = vec![];
        for _ in 0..Self::arity(tier) {
            ops_v.push(it.kinds[(r % n) as usize].clone());
            r /= n;
        }
        let len = ops_v.len();
        Case { doc: self.docs[it.doc].clone(), tolerant, obj_cache: mode.0, stm_cache: mode.1, ops: ops_v, new_resolver: vec![false; len], evict_before: vec![false; len], evict_at: vec![], switch_options: vec![false; len], switch_kind: vec![] }
    }

    /// One run in sixteen: a document with unclosed objects, a short history of loads of one or two
    /// of its objects, and `File::set_options` calls that change ONE option between them.
    fn sloppy_case(&mut self, ctx: &WorkerCtx, i: u64) -> Case {
        let mut rng = Rng::new(run_seed(ctx.verif_seed, "C12/sloppy", i));
        let doc = self.sloppy[rng.usize(self.sloppy.len())].clone();
        let objs: Vec<(u64, ObjKind)> = doc.inv.objects.iter().cloned().filter(|(_, k)| *k != ObjKind::Unreadable).collect();
        let focus: Vec<(u64, ObjKind)> = (0..1 + rng.usize(2)).map(|_| *rng.pick(&objs)).collect();
        let n_pages = doc.inv.n_pages.max(1) as u64;
        let len = 2 + rng.usize(6);
        let mut ops_v = vec![];
        for _ in 0..len {
            ops_v.push(match rng.below(8) {
                0 => Op::PageWalk(rng.below(n_pages) as u32),
                1 => Op::LazyFont(rng.below(n_pages) as u32),
                _ => {
                    let (id, kind) = *rng.pick(&focus);
                    let r = ops::right_ops(id, kind);
                    rng.pick(&r).clone()
                }
            });
        }
        let mode = *rng.pick(&[(true, false), (false, true), (true, true), (true, true)]);
        let switch_options: Vec<bool> = (0..len).map(|k| k > 0 && rng.chance(1, 2)).collect();
        let switch_kind: Vec<u8> = (0..len).map(|_| *rng.pick(&[1u8, 1, 1, 2, 3, 0])).collect();
        let new_resolver = (0..len).map(|_| rng.chance(1, 3)).collect();
        Case { doc, tolerant: rng.coin(), obj_cache: mode.0, stm_cache: mode.1, ops: ops_v, new_resolver, evict_before: vec![false; len], evict_at: vec![], switch_options, switch_kind }
    }

    fn random_case(&mut self, ctx: &WorkerCtx, i: u64) -> Case {
        if i % 16 == 6 && !self.sloppy.is_empty() {
            return self.sloppy_case(ctx, i);
        }
        let mut rng = Rng::new(run_seed(ctx.verif_seed, "C12", i));
        let mut doc = self.docs[rng.usize(self.docs.len())].clone();
        if i % 16 == 14 && !self.rootstm.is_empty() {
            doc = self.rootstm[(i / 16) as usize % self.rootstm.len()].clone();
        }
        let objs: Vec<(u64, ObjKind)> = doc.inv.objects.iter().cloned().filter(|(_, k)| *k != ObjKind::Unreadable).collect();
        let mut focus = vec![];
        for _ in 0..1 + rng.usize(4) {
            if !objs.is_empty() {
                focus.push(*rng.pick(&objs));
            }
        }
        let n_pages = doc.inv.n_pages.max(1) as u64;
        let len = 1 + rng.usize(12);
        let mut ops_v = vec![];
        for _ in 0..len {
            let op = match rng.below(10) {
                0..=5 if !focus.is_empty() => {
                    let (id, kind) = *rng.pick(&focus);
                    if rng.chance(1, 6) {
                        ops::wrong_op(id, kind, &mut rng)
                    } else {
                        let r = ops::right_ops(id, kind);
                        rng.pick(&r).clone()
                    }
                }
                6 => Op::GetPage(rng.below(n_pages + 1) as u32),
                7 => Op::PageWalk(rng.below(n_pages) as u32),
                8 => Op::LazyAnnots(rng.below(n_pages) as u32),
                _ => {
                    if rng.chance(1, 3) {
                        Op::Trees
                    } else {
                        Op::LazyFont(rng.below(n_pages) as u32)
                    }
                }
            };
            ops_v.push(op);
        }
        let mode = match rng.below(8) {
            0 | 1 => (true, false),
            2 | 3 => (false, true),
            _ => (true, true),
        };
        // swarm: fault-free batch (even runs) and fault-injecting batch (odd runs) are separate
        let faults = i % 2 == 1;
        let evict_before = (0..len).map(|_| faults && rng.chance(1, 4)).collect();
        let evict_at = if faults { (0..rng.usize(4)).map(|_| rng.below(80)).collect() } else { vec![] };
        let new_resolver = (0..len).map(|_| rng.chance(1, 3)).collect();
        let switching = rng.chance(1, 5);
        let switch_options = (0..len).map(|k| switching && k > 0 && rng.chance(1, 4)).collect();
        Case { doc, tolerant: rng.chance(1, 3), obj_cache: mode.0, stm_cache: mode.1, ops: ops_v, new_resolver, evict_before, evict_at, switch_options, switch_kind: vec![] }
    }

    /// first call whose cached answer differs from its alone answer
    fn first_mismatch(&mut self, case: &Case, out: &Outcome) -> Option<(usize, Answer, Answer)> {
        for (k, a) in out.answers.iter().enumerate() {
            let alone = self.alone.answer_opts(&case.doc, case.opts_at(k), &case.ops[k]);
            if !alone.same(a) {
                return Some((k, alone, a.clone()));
            }
        }
        None
    }

    fn signature(&mut self, case: &Case, k: usize, alone: &Answer, got: &Answer) -> String {
        let cls = |a: &Answer| if a.ok { "Ok".to_string() } else { a.text.clone() };
        let mut before: Vec<String> = case.ops[..k].iter().map(|o| o.kind()).collect();
        before.sort();
        before.dedup();
        // (the cut also shows through error texts that render the object, e.g. "unimplemented
        // JBIG2Decode(JBIG2DecodeParams { globals: None })" against "... globals: Some(..)": two errors of
        // the same variant whose texts differ)
        let variant = |a: &Answer| a.text.split(':').next().unwrap_or("").to_string();
        let same_class = (alone.ok && got.ok) || (!alone.ok && !got.ok && variant(alone) == variant(got));
        if same_class && (case.tolerant || case.switch_options.iter().any(|&b| b)) && self.alone.doc_has_cycle(&case.doc) {
            // one root cause, many shapes (which call, which calls before, with or without eviction)
            return "tolerant mode, document with a typed reference cycle: where the cycle is cut depends on the calls made before (the cut object is cached)".to_string();
        }
        // known finding K4: more than 64 eager references in a chain. The bound that keeps the stack
        // finite (repair F39) counts the loads that are nested *now*; with ancestors already in the
        // cache fewer nest, so a cached document loads nodes that an uncached one refuses.
        // (in tolerant mode the refusal is swallowed by the optional /Parent field and shows as a
        // parent chain cut at another place)
        if case.doc.family == "long_parents" && (alone.text.contains("references nested too deeply") || got.text.contains("references nested too deeply") || case.tolerant || case.switch_options.iter().any(|&b| b)) {
            return "document with more than 64 eager references in a chain: the nesting bound depends on what the cache already holds".to_string();
        }
        let kind = if alone.ok && got.ok { "different value" } else if alone.ok != got.ok { "Ok/Err class differs" } else { "different kind of error" };
        let mut flags = vec![];
        if case.tolerant_at(k) {
            flags.push("tolerant");
        }
        if case.switch_options.iter().take(k + 1).any(|&b| b) {
            flags.push("parse options switched with set_options");
        }
        if self.alone.doc_has_cycle(&case.doc) {
            flags.push("document has a typed reference cycle");
        }
        if case.evict_before.iter().any(|&b| b) || !case.evict_at.is_empty() {
            flags.push("eviction");
        }
        let _ = before;
        format!("{}: {} alone={} cached={} ({})", kind, case.ops[k].kind(), cls(alone), cls(got), flags.join(", "))
    }

    fn judge(&mut self, case: &Case, out: &Outcome) -> Option<(String, String)> {
        if out.load_error {
            // opening is the first call: a document that opens without caches opens with them
            let bits = if case.tolerant { ops::OPTS_TOLERANT } else { ops::OPTS_STRICT };
            if self.alone.opens(&case.doc, bits) {
                let variant = out.load_error_text.split(':').next().unwrap_or("").to_string();
                return Some((
                    format!("the document opens without caches and not with them: {} ({})", variant, if case.tolerant { "tolerant" } else { "strict" }),
                    format!("cached open: {}", out.load_error_text.chars().take(300).collect::<String>()),
                ));
            }
            return None;
        }
        if let Some(p) = &out.panic {
            return Some((format!("panic: {}", panic_signature(p)), p.clone()));
        }
        let (k, alone, got) = self.first_mismatch(case, out)?;
        let before: Vec<String> = case.ops[..k].iter().map(|o| o.kind()).collect();
        Some((self.signature(case, k, &alone, &got), format!("call #{} {:?} after [{}]: alone {} / cached {}", k, case.ops[k], before.join(", "), alone.text, got.text)))
    }

    fn shrink(&mut self, case: &Case) -> (Case, Option<(String, String)>) {
        let mut best = case.clone();
        let mut verdict = {
            let out = run_case(&best);
            self.judge(&best, &out)
        };
        let class = |v: &Option<(String, String)>| v.as_ref().map(|(s, _)| s.split(" (").next().unwrap_or("").to_string());
        let target = class(&verdict);
        if target.is_none() {
            return (best, verdict);
        }
        let mut budget = 120;
        let mut progress = true;
        while progress && budget > 0 {
            progress = false;
            // truncate after the mismatching call
            let out = run_case(&best);
            if let Some((k, _, _)) = self.first_mismatch(&best, &out) {
                if k + 1 < best.ops.len() {
                    best.ops.truncate(k + 1);
                    best.new_resolver.truncate(k + 1);
                    best.evict_before.truncate(k + 1);
                    best.switch_options.truncate(k + 1);
                    best.switch_kind.truncate(k + 1);
                    progress = true;
                }
            }
            let mut cands: Vec<Case> = vec![];
            if !best.evict_at.is_empty() {
                let mut c = best.clone();
                c.evict_at.clear();
                cands.push(c);
            }
            if best.evict_before.iter().any(|&b| b) {
                let mut c = best.clone();
                c.evict_before.iter_mut().for_each(|b| *b = false);
                cands.push(c);
            }
            if best.new_resolver.iter().any(|&b| b) {
                let mut c = best.clone();
                c.new_resolver.iter_mut().for_each(|b| *b = false);
                cands.push(c);
            }
            for k in 0..best.ops.len().saturating_sub(1) {
                let mut c = best.clone();
                c.ops.remove(k);
                c.new_resolver.remove(k);
                c.evict_before.remove(k);
                // removing a call must not change the parse mode of the calls after it
                let sw = c.switch_options.remove(k);
                let partial = c.switch_kind.iter().any(|&x| x != 0);
                if k < c.switch_kind.len() {
                    c.switch_kind.remove(k);
                }
                // (partial switches are not merged: the call goes together with its switch)
                if sw && k < c.switch_options.len() && !partial {
                    c.switch_options[k] ^= true;
                }
                cands.push(c);
            }
            if best.tolerant {
                let mut c = best.clone();
                c.tolerant = false;
                cands.push(c);
            }
            if best.switch_options.iter().any(|&b| b) {
                let mut c = best.clone();
                c.switch_options.iter_mut().for_each(|b| *b = false);
                cands.push(c);
            }
            for c in cands {
                if budget <= 0 {
                    break;
                }
                budget -= 1;
                let out = run_case(&c);
                let v = self.judge(&c, &out);
                if class(&v) == target {
                    best = c;
                    verdict = v;
                    progress = true;
                    break;
                }
            }
        }
        // the verdict (and its flags) must describe the minimised case
        let out = run_case(&best);
        let verdict = self.judge(&best, &out).or(verdict);
        (best, verdict)
    }
}

impl Check for C12 {
    fn info(&self) -> CheckInfo {
        CheckInfo {
            id: "C12",
            level: "exploration",
            rule: "one run = one call history (1-12 read calls incl. wrong-type loads, stream data, raw/decoded image data, page look-ups, lazy loads; resolver reuse or renewal; eviction faults between and inside calls; File::set_options between calls, strict <-> tolerant as a whole or - one random run in sixteen, on rich documents in which every second font / image / form / annotation / resource / inner page node lacks its endobj - exactly one option) on a document (one random run in sixteen: a rich document whose catalog is a member of an object stream, plain or RC4-encrypted) opened with {both caches, object cache only, stream cache only}; reference = each call alone on a fresh uncached document opened under the options in force; opening is a call too (a document that opens without caches opens with them). Enumerated part: every ordered pair (quick) / triple (thorough) of the call kinds applicable to each sampled object and page, x 3 cache modes x {strict, tolerant}. Non-trivial = the history makes at least two calls and at least one cache compute ran; distinct = hash of (document, configuration, history, answers)",
            assumptions: vec![
                "reference model: the library's own uncached, single-call behaviour (a defect that changes cached and uncached answers identically is invisible here)".into(),
                "answers are compared through canonical digests of their Debug rendering (HashMap order and Lazy load state normalised); two errors are 'the same kind' when their root-cause variant (and free-text message) agree".into(),
                "objects per document are a deterministic sample (24 quick / 160 thorough), not all objects of the large corpus files".into(),
            ],
            components_real: vec!["pdf crate (all of it)", "globalcache::sync::SyncCache get/clear/clean"],
            components_stub: vec![],
            per_run_timeout_s: 60,
            required_probes: vec!["evictions_fired", "fault_runs", "fault_free_runs", "enumerated_runs"],
            exhaustive: false,
        }
    }
    fn total_runs(&self, tier: Tier) -> u64 {
        let repo = std::env::var("PDF_REPO").unwrap_or_else(|_| "/repo".into());
        let seed = std::env::var("VERIF_SEED").ok().and_then(|s| s.parse().ok()).unwrap_or(1);
        let mut me = C12::new();
        me.prepare(&repo, seed, tier);
        me.enum_total + Self::random_runs(tier)
    }
    fn run(&mut self, ctx: &WorkerCtx, i: u64) -> RunReport {
        self.prepare(&ctx.repo, ctx.verif_seed, ctx.tier);
        let mut rep = RunReport::default();
        let case = if i < self.enum_total {
            rep.count("enumerated_runs", 1);
            self.enum_case(ctx.tier, i)
        } else {
            let c = self.random_case(ctx, i - self.enum_total);
            rep.count(if (i - self.enum_total) % 2 == 1 { "fault_runs" } else { "fault_free_runs" }, 1);
            c
        };
        let out = run_case(&case);
        let mut h = Hasher64::new();
        h.str(&case.doc.label);
        h.u64(case.tolerant as u64 | (case.obj_cache as u64) << 1 | (case.stm_cache as u64) << 2);
        for (k, op) in case.ops.iter().enumerate() {
            h.str(&format!("{:?}", op));
            h.u64(case.new_resolver[k] as u64 | (case.evict_before[k] as u64) << 1 | (case.switch_options.get(k).cloned().unwrap_or(false) as u64) << 2 | (case.switch_kind.get(k).cloned().unwrap_or(0) as u64) << 3);
        }
        for e in &case.evict_at {
            h.u64(*e);
        }
        for a in &out.answers {
            h.u64(a.digest);
        }
        rep.trace_hash = h.finish();
        rep.nontrivial = case.ops.len() >= 2 && out.computes > 0;
        rep.count("calls", out.answers.len() as u64);
        rep.count("evictions_fired", out.evictions);
        rep.count("cache_computes", out.computes);
        if out.load_error {
            rep.count("load_errors", 1);
        }
        if self.judge(&case, &out).is_some() {
            let (c, v) = self.shrink(&case);
            if let Some((sig, detail)) = v {
                rep.violations.push(Violation { signature: sig, detail, case: c.to_json() });
            }
        }
        if i % 9973 == 0 {
            rep.sample = Some(json!({"run": i, "case": case.summary(), "answers": out.answers.iter().map(|a| a.text.chars().take(60).collect::<String>()).collect::<Vec<_>>()}));
        }
        rep
    }
    fn replay(&mut self, ctx: &WorkerCtx, case: &J) -> Vec<Violation> {
        let c = match Case::from_json(case, &ctx.repo) {
            Some(c) => c,
            None => return vec![],
        };
        let out = run_case(&c);
        self.judge(&c, &out).into_iter().map(|(s, d)| Violation { signature: s, detail: d, case: case.clone() }).collect()
    }
}
