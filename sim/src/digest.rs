//! Canonical digests of results, so that answers from different documents / configurations can be
//! compared: the `Debug` rendering of a value, parsed into a bracket tree, with the children of
//! every `{..}` group sorted (std HashMap iteration order is per-map random) and the load state of
//! `Lazy` cells removed (whether a lazy field has been loaded yet is not part of the value).

use crate::rng::Hasher64;
use pdf::PdfError;

#[derive(Debug)]
enum Node {
    Text(String),
    Group { open: char, items: Vec<Vec<Node>> },
}

fn parse_items(chars: &[char], pos: &mut usize, close: Option<char>) -> Vec<Vec<Node>> {
    let mut items: Vec<Vec<Node>> = vec![vec![]];
    let mut text = String::new();
    macro_rules! flush {
        () => {
            if !text.is_empty() {
                items.last_mut().unwrap().push(Node::Text(std::mem::take(&mut text)));
            }
        };
    }
    while *pos < chars.len() {
        let c = chars[*pos];
        match c {
            '"' => {
                // string literal: copy verbatim up to the closing unescaped quote
                text.push(c);
                *pos += 1;
                while *pos < chars.len() {
                    let d = chars[*pos];
                    text.push(d);
                    *pos += 1;
                    if d == '\\' && *pos < chars.len() {
                        text.push(chars[*pos]);
                        *pos += 1;
                    } else if d == '"' {
                        break;
                    }
                }
                continue;
            }
            '{' | '[' | '(' => {
                flush!();
                *pos += 1;
                let cl = match c {
                    '{' => '}',
                    '[' => ']',
                    _ => ')',
                };
                let inner = parse_items(chars, pos, Some(cl));
                items.last_mut().unwrap().push(Node::Group { open: c, items: inner });
                continue;
            }
            '}' | ']' | ')' if Some(c) == close => {
                flush!();
                *pos += 1;
                if items.last().map(|i| i.is_empty()).unwrap_or(false) && items.len() > 1 {
                    items.pop();
                }
                return items;
            }
            ',' => {
                flush!();
                items.push(vec![]);
            }
            _ => text.push(c),
        }
        *pos += 1;
    }
    flush!();
    items
}

fn render(nodes: &[Node], out: &mut String) {
    let mut prev_text_lazy = false;
    for n in nodes {
        match n {
            Node::Text(t) => {
                let tt = t.trim();
                prev_text_lazy = tt.ends_with("Lazy");
                out.push_str(tt);
                out.push(' ');
            }
            Node::Group { open, items } => {
                let mut rendered: Vec<String> = items
                    .iter()
                    .map(|it| {
                        let mut s = String::new();
                        render(it, &mut s);
                        s.trim().to_string()
                    })
                    .filter(|s| !s.is_empty())
                    .collect();
                if *open == '{' {
                    if prev_text_lazy {
                        rendered.retain(|s| !s.starts_with("cache:"));
                    }
                    rendered.sort();
                }
                out.push(*open);
                out.push_str(&rendered.join(","));
                out.push(match open {
                    '{' => '}',
                    '[' => ']',
                    _ => ')',
                });
                prev_text_lazy = false;
            }
        }
    }
}

pub fn canon(debug: &str) -> String {
    let chars: Vec<char> = debug.chars().collect();
    let mut pos = 0;
    let items = parse_items(&chars, &mut pos, None);
    let mut out = String::new();
    for (i, it) in items.iter().enumerate() {
        if i > 0 {
            out.push(',');
        }
        render(it, &mut out);
    }
    out
}

pub fn hash_str(s: &str) -> u64 {
    let mut h = Hasher64::new();
    h.str(s);
    h.finish()
}

/// Root cause of an error: strip the wrappers that only record where an error passed through.
pub fn root_cause(e: &PdfError) -> &PdfError {
    match e {
        PdfError::Shared { source } => root_cause(source),
        PdfError::Try { source, .. } => root_cause(source),
        PdfError::FromPrimitive { source, .. } => root_cause(source),
        other => other,
    }
}

/// "Kind of error": the root-cause variant, plus the message for free-text errors.
pub fn error_kind(e: &PdfError) -> String {
    let r = root_cause(e);
    let d = format!("{:?}", r);
    let variant: String = d.chars().take_while(|c| c.is_alphanumeric() || *c == '_').collect();
    match r {
        PdfError::Other { msg } => format!("Other:{}", msg),
        _ => variant,
    }
}

#[derive(Clone, Debug, PartialEq, Eq)]
pub struct Answer {
    pub ok: bool,
    /// Ok: hash of the canonical rendering; Err: hash of the error kind
    pub digest: u64,
    /// short human-readable form (error kind, or a prefix of the canonical rendering)
    pub text: String,
}

/// `{:?}` into a bounded buffer: a value with an in-memory reference cycle (possible once Lazy
/// cells are loaded) would otherwise recurse without end inside the *harness*.
thread_local! {
    /// set on walker threads: results are only classified Ok/Err there, so values are not rendered
    /// (rendering a deep structure would also recurse on the small stack that is under test)
    pub static LIGHT: std::cell::Cell<bool> = const { std::cell::Cell::new(false) };
}

pub fn debug_bounded<T: std::fmt::Debug>(v: &T) -> String {
    if LIGHT.with(|l| l.get()) {
        return String::new();
    }
    struct Bounded(String);
    impl std::fmt::Write for Bounded {
        fn write_str(&mut self, s: &str) -> std::fmt::Result {
            if self.0.len() + s.len() > (1 << 20) {
                return Err(std::fmt::Error);
            }
            self.0.push_str(s);
            Ok(())
        }
    }
    let mut b = Bounded(String::new());
    use std::fmt::Write;
    if write!(b, "{:?}", v).is_err() {
        eprintln!("HARNESS-ERROR: unbounded Debug rendering in the digest (a cyclic value reached debug_bounded)");
        std::process::exit(2);
    }
    b.0
}

impl Answer {
    pub fn ok_debug<T: std::fmt::Debug>(v: &T) -> Answer {
        let c = canon(&debug_bounded(v));
        Answer { ok: true, digest: hash_str(&c), text: c.chars().take(if std::env::var("VERIF_DEBUG").is_ok() { 2000 } else { 160 }).collect() }
    }
    pub fn ok_text(c: String) -> Answer {
        Answer { ok: true, digest: hash_str(&c), text: c.chars().take(if std::env::var("VERIF_DEBUG").is_ok() { 2000 } else { 160 }).collect() }
    }
    pub fn ok_bytes(b: &[u8]) -> Answer {
        let mut h = Hasher64::new();
        h.bytes(b);
        h.u64(b.len() as u64);
        Answer { ok: true, digest: h.finish(), text: format!("bytes len={} fnv={:016x}", b.len(), h.finish()) }
    }
    pub fn err(e: &PdfError) -> Answer {
        let k = error_kind(e);
        Answer { ok: false, digest: hash_str(&k), text: format!("Err({})", k.chars().take(120).collect::<String>()) }
    }
    pub fn same(&self, other: &Answer) -> bool {
        self.ok == other.ok && self.digest == other.digest
    }
    /// same Ok/Err class; for Ok also the same value (error kinds may differ)
    pub fn same_class(&self, other: &Answer) -> bool {
        self.ok == other.ok && (!self.ok || self.digest == other.digest)
    }
    pub fn to_json(&self) -> serde_json::Value {
        serde_json::json!({ "ok": self.ok, "digest": format!("{:016x}", self.digest), "text": self.text })
    }
}
