//! C14 — hostile but well-formed object graphs (DESIGN §4.6). Structure-aware at-rest faults
//! (retarget a reference field, set a numeric field to a boundary value, nest beyond the supported
//! depth, hostile trailer / xref-stream fields) are planted in typed templates through the
//! harness's writer, so the file stays syntactically valid and typed loading is reached; the
//! walker of C01 then runs under the same stack / allocator / work limits, in a worker process.

use crate::c01::{verdicts, CONFIGS};
use crate::docgen::*;
use crate::framework::*;
use crate::rng::{run_seed, Hasher64, Rng};
use crate::templates;
use crate::walker::{walk, WalkCfg};
use serde_json::{json, Value as J};
use std::collections::BTreeMap;

#[derive(Clone, Debug, PartialEq)]
pub enum PathElem {
    Key(String),
    Idx(usize),
}

#[derive(Clone, Debug, PartialEq)]
pub struct Site {
    pub rev: usize,
    pub num: u32,
    pub path: Vec<PathElem>,
}

#[derive(Clone, Debug, PartialEq)]
pub enum HFault {
    /// one reference field pointed at another object (including its own)
    Retarget { site: Site, target: u32 },
    /// one numeric field set to a boundary value (token text)
    Boundary { site: Site, text: String },
    /// one value replaced by arrays nested `depth` deep
    Nest { site: Site, depth: usize },
    /// a trailer / xref-stream dictionary entry replaced
    Override { rev: usize, key: String, val: Val },
    /// the /Length reference of a stream retargeted
    LenRef { rev: usize, num: u32, target: u32 },
    /// the data of one stream object replaced by a small hostile payload (a PostScript calculator
    /// program, a CMap, a content stream, an object-stream header)
    Payload { rev: usize, num: u32, data: Vec<u8> },
    /// one dictionary entry removed (a required entry that is absent)
    DropKey { site: Site },
    /// one entry of a stream dictionary set (or added): a /Length that disagrees with the data, a
    /// /Filter array of 1000 stages, /DecodeParms of mismatching length
    StreamKey { rev: usize, num: u32, key: String, text: String },
    /// one string value replaced by a hostile string (dates with multi-byte text on a field border,
    /// lone byte-order marks, unpaired surrogates, 10 000 bytes, nothing)
    StrValue { site: Site, bytes: Vec<u8> },
    /// one name value replaced by another name that selects a different reader (/Subtype, /Type,
    /// /Filter, colour space and encoding names)
    NameValue { site: Site, name: String },
    /// a whole object replaced by `depth` nested one-element arrays around a reference to itself
    /// (`5 0 obj [5 0 R]`, `5 0 obj [[[5 0 R]]]`)
    SelfArray { rev: usize, num: u32, depth: usize },
    /// one array made longer (a copy of its last element, or 0, appended: `grow` 1 or 3) or shorter
    /// (its last element removed: `grow` -1)
    ArrayLen { site: Site, grow: i32 },
    /// two numeric entries of one stream dictionary set to the same boundary value
    Pair { a: Site, b: Site, text: String },
}

const HOSTILE_STRINGS: [&[u8]; 14] = [
    b"", b"D:", b"D:2020", b"D:20201\xc3\xa94", b"D:2020010100000\xc3\xa9", b"D:20200101000000+99'99'", b"D:20200101000000+0\xc3\xa9'00'", b"D:99999999999999Z",
    b"\xfe\xff", b"\xfe\xff\xd8\x00", b"\xfe\xff\xd8\x00\x00A", b"\\", b"((((", b"@long",
];
const HOSTILE_NAMES: [&str; 34] = [
    "Type0", "Type1", "TrueType", "CIDFontType0", "CIDFontType2", "Type3", "MMType1", "Image", "Form", "Pages", "Page", "Catalog", "Font", "XObject", "ObjStm", "XRef", "DeviceN", "Separation",
    "Indexed", "ICCBased", "Pattern", "CalRGB", "Lab", "Identity-H", "FlateDecode", "LZWDecode", "DCTDecode", "CCITTFaxDecode", "JBIG2Decode", "JPXDecode", "Crypt", "RunLengthDecode", "ASCII85Decode", "Identity",
];

const PAYLOADS: [&str; 66] = [
    // expanded when applied: 150 000 '%' without a line end; 150 000 '(' (unbalanced string)
    "@percent_run", "@paren_run",
    // 100 000 line continuations inside one string
    "@backslash_newline_run",
    // inline images without data
    "BI /W 2 /H 2 /BPC 8 /CS /G ID\nEI", "BI ID\nEI", "BI /W 1 /H 1 ID\r\nEI", "BI /W 1 /H 1 /BPC 8 /CS /G ID EI", "BI /W 1 /H 1 ID\nEI Q", "q BI /W 0 /H 0 ID\nEI",
    // PostScript calculator programs (operands at, just below and just above the stack depth)
    "{ 1 index }", "{ 0 index }", "{ 2 index }", "{ dup 1 index }", "{ dup 2 index }", "{ 1 1 roll }", "{ 2 1 roll }", "{ 1 2 roll }", "{ dup 2 2 roll }", "{ dup 3 1 roll }", "{ pop 0 index }", "{ pop }", "{ exch }", "{ copy }", "{ 1 copy }", "{ 2 copy }", "{ dup 2 copy }",
    "{ 5 1 roll }", "{ 1 5 roll }", "{ 2 -2147483648 roll }", "{ 0 0 roll }", "{ 3 index }", "{ -1 index }", "}{", "{", "{ 1e39 1e39 mul 1 roll }",
    "{ 2147483647 2147483647 roll }", "{ dup dup dup dup roll }", "{ pop pop pop }", "{ 1 0 roll 0 index }", "{ 2 1e39 roll }",
    // ToUnicode CMaps
    "1 beginbfrange <00> <FF> <> endbfrange", "1 beginbfrange <0000> <FFFF> [ ] endbfrange", "1 beginbfchar <> <0041> endbfchar",
    "1 beginbfrange <FFFF> <0000> <0041> endbfrange", "1 beginbfrange <0000> <FFFF> <D800> endbfrange", "1 beginbfrange <0000> <0002> [ <0041> ] endbfrange",
    "1 beginbfchar <000000> <0041> endbfchar", "1 beginbfrange <0000> <FFFF> <DBFFDFFF> endbfrange", "beginbfrange <00>", "1 beginbfrange <41> <42> <> <43> endbfrange",
    // content streams
    "BI /W -1 /H 1 /BPC 8 /CS /G ID x EI", "1 2 3 4 5 6 7 8 9 cm", "[ (a) 1e39 ] TJ", "/F1 -1 Tf", "BT ET ET Q Q Q", "BI /F /Fl /W 1 /H 1 ID \n EI", "BI ID", "(unterminated",
    "1 0 0 1 0 0 cm cm cm cm", "/X Do /X Do /X Do", "BI /W 2147483647 /H 2147483647 /BPC 8 /CS /RGB ID x EI", "q q q q q q q q q q q q q q q q q q q q q q q q q q q q q q q q q",
    // object stream headers
    "5 0 6 99999 7 5", "99999999999999999999 0", "5 18446744073709551615", "5 0 6 0 7 0",
];

const BOUNDARIES: [&str; 6] = ["-1", "0", "1", "2147483647", "4294967295", "18446744073709551615"];

fn site_json(s: &Site) -> J {
    json!({"rev": s.rev, "num": s.num, "path": s.path.iter().map(|p| match p { PathElem::Key(k) => json!(k), PathElem::Idx(i) => json!(i) }).collect::<Vec<_>>()})
}
fn site_from(j: &J) -> Option<Site> {
    Some(Site {
        rev: j.get("rev")?.as_u64()? as usize,
        num: j.get("num")?.as_u64()? as u32,
        path: j.get("path")?.as_array()?.iter().map(|p| if let Some(k) = p.as_str() { PathElem::Key(k.to_string()) } else { PathElem::Idx(p.as_u64().unwrap_or(0) as usize) }).collect(),
    })
}
impl HFault {
    /// the object the fault is planted in (None: the cross-reference section / trailer)
    pub fn obj_num(&self) -> Option<u32> {
        match self {
            HFault::Retarget { site, .. } | HFault::Boundary { site, .. } | HFault::Nest { site, .. } | HFault::DropKey { site } | HFault::StrValue { site, .. } | HFault::NameValue { site, .. } | HFault::ArrayLen { site, .. } => Some(site.num),
            HFault::Pair { a, .. } => Some(a.num),
            HFault::LenRef { num, .. } | HFault::Payload { num, .. } | HFault::StreamKey { num, .. } | HFault::SelfArray { num, .. } => Some(*num),
            HFault::Override { .. } => None,
        }
    }
    pub fn kind(&self) -> &'static str {
        match self {
            HFault::Retarget { .. } => "retarget",
            HFault::Boundary { .. } => "boundary",
            HFault::Nest { .. } => "nest",
            HFault::Override { .. } => "xref_field",
            HFault::LenRef { .. } => "length_ref",
            HFault::Payload { .. } => "payload",
            HFault::DropKey { .. } => "drop_key",
            HFault::StreamKey { .. } => "stream_key",
            HFault::StrValue { .. } => "string_value",
            HFault::NameValue { .. } => "name_value",
            HFault::SelfArray { .. } => "self_array",
            HFault::ArrayLen { .. } => "array_length",
            HFault::Pair { .. } => "boundary_pair",
        }
    }
    pub fn to_json(&self) -> J {
        match self {
            HFault::Retarget { site, target } => json!({"kind": "retarget", "site": site_json(site), "target": target}),
            HFault::Boundary { site, text } => json!({"kind": "boundary", "site": site_json(site), "text": text}),
            HFault::Nest { site, depth } => json!({"kind": "nest", "site": site_json(site), "depth": depth}),
            HFault::Override { rev, key, val } => json!({"kind": "xref_field", "rev": rev, "key": key, "val": val.to_json()}),
            HFault::LenRef { rev, num, target } => json!({"kind": "length_ref", "rev": rev, "num": num, "target": target}),
            HFault::Payload { rev, num, data } => json!({"kind": "payload", "rev": rev, "num": num, "data": String::from_utf8_lossy(data)}),
            HFault::DropKey { site } => json!({"kind": "drop_key", "site": site_json(site)}),
            HFault::StrValue { site, bytes } => json!({"kind": "string_value", "site": site_json(site), "bytes": crate::docgen::hex(bytes)}),
            HFault::NameValue { site, name } => json!({"kind": "name_value", "site": site_json(site), "name": name}),
            HFault::SelfArray { rev, num, depth } => json!({"kind": "self_array", "rev": rev, "num": num, "depth": depth}),
            HFault::ArrayLen { site, grow } => json!({"kind": "array_length", "site": site_json(site), "grow": grow}),
            HFault::Pair { a, b, text } => json!({"kind": "boundary_pair", "a": site_json(a), "b": site_json(b), "text": text}),
            HFault::StreamKey { rev, num, key, text } => json!({"kind": "stream_key", "rev": rev, "num": num, "key": key, "text": text.chars().take(80).collect::<String>(), "len": text.len()}),
        }
    }
    pub fn from_json(j: &J) -> Option<HFault> {
        Some(match j.get("kind")?.as_str()? {
            "retarget" => HFault::Retarget { site: site_from(j.get("site")?)?, target: j.get("target")?.as_u64()? as u32 },
            "boundary" => HFault::Boundary { site: site_from(j.get("site")?)?, text: j.get("text")?.as_str()?.to_string() },
            "nest" => HFault::Nest { site: site_from(j.get("site")?)?, depth: j.get("depth")?.as_u64()? as usize },
            "xref_field" => HFault::Override { rev: j.get("rev")?.as_u64()? as usize, key: j.get("key")?.as_str()?.to_string(), val: Val::from_json(j.get("val")?)? },
            "length_ref" => HFault::LenRef { rev: j.get("rev")?.as_u64()? as usize, num: j.get("num")?.as_u64()? as u32, target: j.get("target")?.as_u64()? as u32 },
            "payload" => HFault::Payload { rev: j.get("rev")?.as_u64()? as usize, num: j.get("num")?.as_u64()? as u32, data: j.get("data")?.as_str()?.as_bytes().to_vec() },
            "drop_key" => HFault::DropKey { site: site_from(j.get("site")?)? },
            "string_value" => HFault::StrValue { site: site_from(j.get("site")?)?, bytes: crate::docgen::unhex(j.get("bytes")?.as_str()?)? },
            "boundary_pair" => HFault::Pair { a: site_from(j.get("a")?)?, b: site_from(j.get("b")?)?, text: j.get("text")?.as_str()?.to_string() },
            "array_length" => HFault::ArrayLen { site: site_from(j.get("site")?)?, grow: j.get("grow")?.as_i64()? as i32 },
            "self_array" => HFault::SelfArray { rev: j.get("rev")?.as_u64()? as usize, num: j.get("num")?.as_u64()? as u32, depth: j.get("depth")?.as_u64()? as usize },
            "name_value" => HFault::NameValue { site: site_from(j.get("site")?)?, name: j.get("name")?.as_str()?.to_string() },
            "stream_key" => HFault::StreamKey { rev: j.get("rev")?.as_u64()? as usize, num: j.get("num")?.as_u64()? as u32, key: j.get("key")?.as_str()?.to_string(), text: j.get("text")?.as_str()?.to_string() },
            _ => return None,
        })
    }
}

fn collect(v: &Val, path: &mut Vec<PathElem>, refs: &mut Vec<Vec<PathElem>>, nums: &mut Vec<Vec<PathElem>>) {
    let (mut s, mut n) = (vec![], vec![]);
    collect_all(v, path, refs, nums, &mut s, &mut n);
}

fn collect_all(v: &Val, path: &mut Vec<PathElem>, refs: &mut Vec<Vec<PathElem>>, nums: &mut Vec<Vec<PathElem>>, strs: &mut Vec<Vec<PathElem>>, names: &mut Vec<Vec<PathElem>>) {
    match v {
        Val::Ref(..) => refs.push(path.clone()),
        Val::Int(_) | Val::Real(_) => nums.push(path.clone()),
        Val::Str(_) => strs.push(path.clone()),
        Val::Name(_) => names.push(path.clone()),
        Val::Arr(a) => {
            for (i, x) in a.iter().enumerate() {
                path.push(PathElem::Idx(i));
                collect_all(x, path, refs, nums, strs, names);
                path.pop();
            }
        }
        Val::Dict(d) => {
            for (k, x) in d {
                path.push(PathElem::Key(k.clone()));
                collect_all(x, path, refs, nums, strs, names);
                path.pop();
            }
        }
        _ => {}
    }
}

fn collect_arrays(v: &Val, path: &mut Vec<PathElem>, out: &mut Vec<Vec<PathElem>>) {
    match v {
        Val::Arr(a) => {
            out.push(path.clone());
            for (i, x) in a.iter().enumerate() {
                path.push(PathElem::Idx(i));
                collect_arrays(x, path, out);
                path.pop();
            }
        }
        Val::Dict(d) => {
            for (k, x) in d {
                path.push(PathElem::Key(k.clone()));
                collect_arrays(x, path, out);
                path.pop();
            }
        }
        _ => {}
    }
}
fn value_at<'a>(v: &'a Val, path: &[PathElem]) -> Option<&'a Val> {
    if path.is_empty() {
        return Some(v);
    }
    match (&path[0], v) {
        (PathElem::Idx(i), Val::Arr(a)) => a.get(*i).and_then(|x| value_at(x, &path[1..])),
        (PathElem::Key(k), Val::Dict(d)) => d.iter().find(|(kk, _)| kk == k).and_then(|(_, x)| value_at(x, &path[1..])),
        _ => None,
    }
}

fn slot_val(s: &Slot) -> Option<Val> {
    match s {
        Slot::Direct { body: Body::Plain(v), .. } => Some(v.clone()),
        Slot::Direct { body: Body::Stream { dict, .. }, .. } => Some(Val::Dict(dict.clone())),
        Slot::Compressed { val, .. } => Some(val.clone()),
        _ => None,
    }
}
fn set_slot_val(s: &mut Slot, v: Val) {
    match s {
        Slot::Direct { body: Body::Plain(x), .. } => *x = v,
        Slot::Direct { body: Body::Stream { dict, .. }, .. } => {
            if let Val::Dict(d) = v {
                *dict = d;
            }
        }
        Slot::Compressed { val, .. } => *val = v,
        _ => {}
    }
}
fn replace_at(v: &mut Val, path: &[PathElem], new: Val) -> bool {
    if path.is_empty() {
        *v = new;
        return true;
    }
    match (&path[0], v) {
        (PathElem::Idx(i), Val::Arr(a)) => match a.get_mut(*i) {
            Some(x) => replace_at(x, &path[1..], new),
            None => false,
        },
        (PathElem::Key(k), Val::Dict(d)) => match d.iter_mut().find(|(kk, _)| kk == k) {
            Some((_, x)) => replace_at(x, &path[1..], new),
            None => false,
        },
        _ => false,
    }
}

fn drop_at(v: &mut Val, path: &[PathElem]) -> bool {
    match (path, v) {
        ([PathElem::Key(k)], Val::Dict(d)) => {
            let n = d.len();
            d.retain(|(kk, _)| kk != k);
            d.len() != n
        }
        ([PathElem::Key(k), rest @ ..], Val::Dict(d)) => match d.iter_mut().find(|(kk, _)| kk == k) {
            Some((_, x)) => drop_at(x, rest),
            None => false,
        },
        _ => false,
    }
}

/// every single fault of a template
pub fn single_faults(spec: &DocSpec) -> Vec<HFault> {
    single_faults_near(spec, u32::MAX)
}

/// `first`: for templates with thousands of objects that all look alike, faults are planted in
/// objects 1..=first only and references are aimed at those and at the last three objects.
pub fn single_faults_near(spec: &DocSpec, first: u32) -> Vec<HFault> {
    let mut out = vec![];
    let mut all_nums: Vec<u32> = vec![];
    for r in &spec.revisions {
        for n in r.slots.keys() {
            if !all_nums.contains(n) {
                all_nums.push(*n);
            }
        }
        if let XrefStyle::Stream { num, .. } = &r.style {
            if !all_nums.contains(num) {
                all_nums.push(*num);
            }
        }
    }
    all_nums.sort();
    // one number that no section defines, and the free head
    let undefined = all_nums.last().cloned().unwrap_or(0) + 7;
    let last = all_nums.last().cloned().unwrap_or(0);
    let mut targets: Vec<u32> = all_nums.iter().cloned().filter(|&n| n <= first || n + 3 > last).collect();
    targets.push(0);
    targets.push(undefined);
    for (ri, r) in spec.revisions.iter().enumerate() {
        for (&num, slot) in &r.slots {
            if num > first {
                continue;
            }
            // the whole object replaced by a reference (an indirect object may itself be a reference):
            // to itself, to every other object, to object 0 and to an undefined number
            if matches!(slot, Slot::Direct { body: Body::Plain(_), .. } | Slot::Compressed { .. }) {
                for depth in [1usize, 3] {
                    out.push(HFault::SelfArray { rev: ri, num, depth });
                }
                for &t in &targets {
                    out.push(HFault::Retarget { site: Site { rev: ri, num, path: vec![] }, target: t });
                }
            }
            if let Some(v) = slot_val(slot) {
                let (mut refs, mut nums) = (vec![], vec![]);
                collect(&v, &mut vec![], &mut refs, &mut nums);
                for p in refs {
                    for &t in &targets {
                        out.push(HFault::Retarget { site: Site { rev: ri, num, path: p.clone() }, target: t });
                    }
                    out.push(HFault::Nest { site: Site { rev: ri, num, path: p.clone() }, depth: 25 });
                    out.push(HFault::Nest { site: Site { rev: ri, num, path: p.clone() }, depth: 5000 });
                }
                for p in nums.iter() {
                    for b in BOUNDARIES {
                        out.push(HFault::Boundary { site: Site { rev: ri, num, path: p.clone() }, text: b.to_string() });
                    }
                    // geometry and codec parameters: small values next to the true one change how the
                    // data divides into rows (a last row one byte short, one column too many, ...)
                    if let Some(PathElem::Key(k)) = p.last() {
                        if ["Columns", "Colors", "BitsPerComponent", "Predictor", "Rows", "K", "EarlyChange", "Width", "Height", "N", "First"].contains(&k.as_str()) {
                            for b in ["2", "3", "4", "5", "7", "9", "15", "16", "17", "65535", "65536"] {
                                out.push(HFault::Boundary { site: Site { rev: ri, num, path: p.clone() }, text: b.to_string() });
                            }
                        }
                    }
                }
                // two numbers of one stream dictionary set to the same boundary value (an image whose
                // /Width and /Columns agree on 0, say): only for streams, only pairs of scalar entries
                if matches!(slot, Slot::Direct { body: Body::Stream { .. }, .. }) && nums.len() <= 10 {
                    for i in 0..nums.len() {
                        for j in i + 1..nums.len() {
                            for b in ["0", "-1", "65535", "65536"] {
                                out.push(HFault::Pair { a: Site { rev: ri, num, path: nums[i].clone() }, b: Site { rev: ri, num, path: nums[j].clone() }, text: b.to_string() });
                            }
                        }
                    }
                }
                let (mut r2, mut n2, mut strs, mut names) = (vec![], vec![], vec![], vec![]);
                collect_all(&v, &mut vec![], &mut r2, &mut n2, &mut strs, &mut names);
                for p in strs {
                    for h in HOSTILE_STRINGS {
                        out.push(HFault::StrValue { site: Site { rev: ri, num, path: p.clone() }, bytes: h.to_vec() });
                    }
                }
                let mut arrays = vec![];
                collect_arrays(&v, &mut vec![], &mut arrays);
                for p in arrays {
                    for grow in [1, 3, -1] {
                        out.push(HFault::ArrayLen { site: Site { rev: ri, num, path: p.clone() }, grow });
                    }
                }
                for p in names {
                    for h in HOSTILE_NAMES {
                        out.push(HFault::NameValue { site: Site { rev: ri, num, path: p.clone() }, name: h.to_string() });
                    }
                }
            }
            if let Slot::Direct { body: Body::Stream { .. }, .. } = slot {
                for &t in &targets {
                    out.push(HFault::LenRef { rev: ri, num, target: t });
                }
                for pl in PAYLOADS {
                    out.push(HFault::Payload { rev: ri, num, data: pl.as_bytes().to_vec() });
                }
                for b in BOUNDARIES {
                    out.push(HFault::StreamKey { rev: ri, num, key: "@Length".into(), text: b.to_string() });
                }
                let many = format!("[{}]", "/ASCIIHexDecode ".repeat(1000));
                for (k, t) in [("Filter", many.as_str()), ("Filter", "[/FlateDecode /FlateDecode /LZWDecode /RunLengthDecode /ASCII85Decode]"), ("Filter", "[]"), ("Filter", "/Crypt"), ("Filter", "/JBIG2Decode"), ("Filter", "/JPXDecode"),
                    ("DecodeParms", "[null null null]"), ("DecodeParms", "[<< /Predictor 15 /Columns 0 >>]"), ("DecodeParms", "<< /Predictor 2 /Colors 0 /BitsPerComponent 0 /Columns 0 >>"), ("DecodeParms", "<< /K -1 /Columns 65535 /Rows 65535 >>"),
                    ("DecodeParms", "<< /JBIG2Globals 1 0 R >>"), ("DecodeParms", "<< /JBIG2Globals @self 0 R >>"), ("@jbig2", "<< /JBIG2Globals @self 0 R >>"), ("F", "<< /EF << /F 1 0 R >> >>"), ("FFilter", "/FlateDecode")] {
                    out.push(HFault::StreamKey { rev: ri, num, key: k.into(), text: t.to_string() });
                }
            }
            // every dictionary entry (top level and one level down) removed
            if let Some(Val::Dict(d)) = slot_val(slot) {
                for (k, v) in &d {
                    out.push(HFault::DropKey { site: Site { rev: ri, num, path: vec![PathElem::Key(k.clone())] } });
                    if let Val::Dict(inner) = v {
                        for (k2, _) in inner {
                            out.push(HFault::DropKey { site: Site { rev: ri, num, path: vec![PathElem::Key(k.clone()), PathElem::Key(k2.clone())] } });
                        }
                    }
                }
            }
        }
        for b in BOUNDARIES {
            out.push(HFault::Override { rev: ri, key: "Size".into(), val: Val::Raw(b.to_string()) });
            out.push(HFault::Override { rev: ri, key: "Prev".into(), val: Val::Raw(b.to_string()) });
        }
        out.push(HFault::Override { rev: ri, key: "Prev".into(), val: Val::Raw("@xref".into()) });
        // /Prev naming any other section of the file, older or newer: loops that close anywhere in the chain
        for rj in 0..spec.revisions.len() {
            if rj != ri {
                out.push(HFault::Override { rev: ri, key: "Prev".into(), val: Val::Raw(format!("@xref:{}", rj)) });
            }
        }
        for &t in &targets {
            out.push(HFault::Override { rev: ri, key: "Root".into(), val: Val::Ref(t, 0) });
        }
        if matches!(r.style, XrefStyle::Stream { .. }) {
            for w in ["[0 0 0]", "[1 0 0]", "[8 8 8]", "[9 9 9]", "[1 18446744073709551615 1]", "[4294967295 1 1]", "[1 2]", "[-1 2 1]"] {
                out.push(HFault::Override { rev: ri, key: "W".into(), val: Val::Raw(w.to_string()) });
            }
            for ix in ["[0 0]", "[0 4294967295]", "[4294967295 2]", "[-1 1]", "[0 1 0]", "[0 18446744073709551615]"] {
                out.push(HFault::Override { rev: ri, key: "Index".into(), val: Val::Raw(ix.to_string()) });
            }
            for b in BOUNDARIES {
                out.push(HFault::Override { rev: ri, key: "Length".into(), val: Val::Raw(b.to_string()) });
            }
        }
    }
    out
}

pub fn apply(spec: &DocSpec, faults: &[HFault]) -> DocSpec {
    let mut s = spec.clone();
    for f in faults {
        match f {
            HFault::Retarget { site, target } => {
                if let Some(slot) = s.revisions.get_mut(site.rev).and_then(|r| r.slots.get_mut(&site.num)) {
                    if let Some(mut v) = slot_val(slot) {
                        if replace_at(&mut v, &site.path, Val::Ref(*target, 0)) {
                            set_slot_val(slot, v);
                        }
                    }
                }
            }
            HFault::Boundary { site, text } => {
                if let Some(slot) = s.revisions.get_mut(site.rev).and_then(|r| r.slots.get_mut(&site.num)) {
                    if let Some(mut v) = slot_val(slot) {
                        if replace_at(&mut v, &site.path, Val::Raw(text.clone())) {
                            set_slot_val(slot, v);
                        }
                    }
                }
            }
            HFault::Nest { site, depth } => {
                if let Some(slot) = s.revisions.get_mut(site.rev).and_then(|r| r.slots.get_mut(&site.num)) {
                    if let Some(mut v) = slot_val(slot) {
                        let text = format!("{}0{}", "[".repeat(*depth), "]".repeat(*depth));
                        if replace_at(&mut v, &site.path, Val::Raw(text)) {
                            set_slot_val(slot, v);
                        }
                    }
                }
            }
            HFault::Override { rev, key, val } => {
                if let Some(r) = s.revisions.get_mut(*rev) {
                    r.overrides.retain(|(k, _)| k != key);
                    r.overrides.push((key.clone(), val.clone()));
                }
            }
            HFault::LenRef { rev, num, target } => {
                if let Some(Slot::Direct { body: Body::Stream { len_ref, .. }, .. }) = s.revisions.get_mut(*rev).and_then(|r| r.slots.get_mut(num)) {
                    *len_ref = Some(*target);
                }
            }
            HFault::Payload { rev, num, data } => {
                if let Some(Slot::Direct { body: Body::Stream { dict, data: d, .. }, .. }) = s.revisions.get_mut(*rev).and_then(|r| r.slots.get_mut(num)) {
                    // the payload is stored as is: filters of the template stream are dropped
                    dict.retain(|(k, _)| k != "Filter" && k != "DecodeParms");
                    *d = match &data[..] {
                        b"@percent_run" => vec![b'%'; 150_000],
                        b"@paren_run" => vec![b'('; 150_000],
                        b"@backslash_newline_run" => {
                            let mut v = b"(".to_vec();
                            for _ in 0..100_000 {
                                v.extend_from_slice(b"\\\n");
                            }
                            v.extend_from_slice(b") Tj");
                            v
                        }
                        _ => data.clone(),
                    };
                }
            }
            HFault::StreamKey { rev, num, key, text } => {
                if let Some(Slot::Direct { body: Body::Stream { dict, .. }, .. }) = s.revisions.get_mut(*rev).and_then(|r| r.slots.get_mut(num)) {
                    let text = text.replace("@self", &num.to_string());
                    if key == "@jbig2" {
                        // a JBIG2 image stream whose globals are the stream itself
                        dict.retain(|(k, _)| k != "Filter" && k != "DecodeParms");
                        dict.push(("Filter".into(), Val::name("JBIG2Decode")));
                        dict.push(("DecodeParms".into(), Val::Raw(text)));
                    } else {
                        dict.retain(|(k, _)| k != key);
                        dict.push((key.clone(), Val::Raw(text)));
                    }
                }
            }
            HFault::Pair { a, b, text } => {
                if let Some(slot) = s.revisions.get_mut(a.rev).and_then(|r| r.slots.get_mut(&a.num)) {
                    if let Some(mut v) = slot_val(slot) {
                        let ok1 = replace_at(&mut v, &a.path, Val::Raw(text.clone()));
                        let ok2 = replace_at(&mut v, &b.path, Val::Raw(text.clone()));
                        if ok1 || ok2 {
                            set_slot_val(slot, v);
                        }
                    }
                }
            }
            HFault::ArrayLen { site, grow } => {
                if let Some(slot) = s.revisions.get_mut(site.rev).and_then(|r| r.slots.get_mut(&site.num)) {
                    if let Some(mut v) = slot_val(slot) {
                        if let Some(Val::Arr(a)) = value_at(&v, &site.path).cloned() {
                            let mut a = a;
                            if *grow < 0 {
                                a.pop();
                            } else {
                                for k in 0..*grow {
                                    a.push(if k == 0 { a.last().cloned().unwrap_or(Val::Int(0)) } else { Val::Int(0) });
                                }
                            }
                            if replace_at(&mut v, &site.path, Val::Arr(a)) {
                                set_slot_val(slot, v);
                            }
                        }
                    }
                }
            }
            HFault::SelfArray { rev, num, depth } => {
                if let Some(slot) = s.revisions.get_mut(*rev).and_then(|r| r.slots.get_mut(num)) {
                    let mut v = Val::Ref(*num, 0);
                    for _ in 0..*depth {
                        v = Val::Arr(vec![v]);
                    }
                    if slot_val(slot).is_some() {
                        set_slot_val(slot, v);
                    }
                }
            }
            HFault::StrValue { site, .. } | HFault::NameValue { site, .. } => {
                let new = match f {
                    HFault::StrValue { bytes, .. } => Val::Str(if &bytes[..] == b"@long" { vec![b'A'; 10_000] } else { bytes.clone() }),
                    HFault::NameValue { name, .. } => Val::Name(name.clone()),
                    _ => unreachable!(),
                };
                if let Some(slot) = s.revisions.get_mut(site.rev).and_then(|r| r.slots.get_mut(&site.num)) {
                    if let Some(mut v) = slot_val(slot) {
                        if replace_at(&mut v, &site.path, new) {
                            set_slot_val(slot, v);
                        }
                    }
                }
            }
            HFault::DropKey { site } => {
                if let Some(slot) = s.revisions.get_mut(site.rev).and_then(|r| r.slots.get_mut(&site.num)) {
                    if let Some(mut v) = slot_val(slot) {
                        if drop_at(&mut v, &site.path) {
                            set_slot_val(slot, v);
                        }
                    }
                }
            }
        }
    }
    s
}

#[derive(Clone)]
pub struct Case {
    pub template: String,
    pub faults: Vec<HFault>,
    pub cfg: WalkCfg,
    /// bytes in front of the header (every offset in the file is then relative to the header)
    pub junk: usize,
}

pub struct C14 {
    templates: Vec<(&'static str, DocSpec)>,
    singles: Vec<Vec<HFault>>,
    starts: Vec<u64>,
    enum_total: u64,
    base_outcome: BTreeMap<(usize, usize), u64>,
    prepared: Option<Tier>,
}

impl C14 {
    pub fn new() -> C14 {
        C14 { templates: vec![], singles: vec![], starts: vec![], enum_total: 0, base_outcome: BTreeMap::new(), prepared: None }
    }
    fn prepare(&mut self, tier: Tier) {
        if self.prepared == Some(tier) {
            return;
        }
        let t = templates::all();
        for (name, spec) in &t {
            let w = write_doc(spec);
            if let Err(e) = self_check(spec, &w) {
                eprintln!("HARNESS-ERROR: template {} fails the writer self-check: {}", name, e);
                std::process::exit(2);
            }
        }
        // 3000 objects that all look alike: faults are planted in the first few only
        let mut singles: Vec<Vec<HFault>> = t.iter().map(|(name, s)| if *name == "long_chain" { single_faults_near(s, 8) } else if *name == "icc_chain" { single_faults_near(s, 4) } else { single_faults(s) }).collect();
        // the 24-way appearance dictionaries of dag_misc are 24 copies of one entry: faults in the first two only
        for (k, (name, _)) in t.iter().enumerate() {
            if *name == "dag_misc" {
                singles[k].retain(|f| {
                    let site = match f {
                        HFault::Retarget { site, .. } | HFault::Boundary { site, .. } | HFault::Nest { site, .. } | HFault::DropKey { site } | HFault::StrValue { site, .. } | HFault::NameValue { site, .. } => site,
                        _ => return true,
                    };
                    !site.path.iter().any(|p| matches!(p, PathElem::Key(k) if k.starts_with('S') && k[1..].parse::<u32>().map_or(false, |n| n >= 2)))
                });
            }
        }
        // the name-value and string-value faults are the bulk of the space (34 names / 14 strings per
        // site): the quick tier enumerates every third of them (in a fixed rotation), the thorough tier all
        if tier == Tier::Quick {
            // retargets: every reference field meets itself, its neighbours, object 0, an undefined
            // number, the first and last three objects and every fifth of the others (thorough: all)
            for v in singles.iter_mut() {
                let max = v.iter().filter_map(|f| f.obj_num()).max().unwrap_or(0);
                v.retain(|f| match f {
                    HFault::Retarget { site, target } => {
                        let (n, t) = (site.num as i64, *target as i64);
                        t == 0 || t > max as i64 || (t - n).abs() <= 1 || t <= 3 || t + 2 >= max as i64 || (t + n) % 5 == 0
                    }
                    _ => true,
                });
            }
            for v in singles.iter_mut() {
                let mut k = 0usize;
                v.retain(|f| {
                    let big_pair = matches!(f, HFault::Pair { text, .. } if text.len() > 2);
                    if matches!(f, HFault::NameValue { .. } | HFault::StrValue { .. }) || big_pair {
                        k += 1;
                        k % 3 == 0
                    } else {
                        true
                    }
                });
            }
        }
        // both tiers enumerate the complete single-fault space of every template; the tiers differ in the
        // number of seeded multi-fault cases
        let enum_templates = t.len();
        let mut starts = vec![];
        let mut total = 0u64;
        for s in singles.iter().take(enum_templates) {
            starts.push(total);
            // thorough: every single fault in all 4 configurations x {no, some} bytes before the header;
            // quick: in all 4 configurations, the bytes before the header alternating with them
            total += s.len() as u64 * CONFIGS.len() as u64 * if tier == Tier::Quick { 1 } else { 2 };
        }
        self.templates = t;
        self.singles = singles;
        self.starts = starts;
        self.enum_total = total;
        self.prepared = Some(tier);
    }
    fn random_runs(tier: Tier) -> u64 {
        match tier {
            Tier::Quick => 100_000,
            Tier::Thorough => 2_000_000,
        }
    }
    fn case_for(&self, ctx: &WorkerCtx, i: u64) -> (usize, Case) {
        if i < self.enum_total {
            let idx = match self.starts.binary_search(&i) {
                Ok(k) => k,
                Err(k) => k - 1,
            };
            let r = i - self.starts[idx];
            let (junk, r) = if ctx.tier == Tier::Quick {
                // (fault index + configuration) decides: each fault meets both, each configuration meets both
                (if (r / CONFIGS.len() as u64 + r % CONFIGS.len() as u64) % 2 == 1 { 13 } else { 0 }, r)
            } else {
                (if r % 2 == 1 { 13 } else { 0 }, r / 2)
            };
            let f = self.singles[idx][(r / CONFIGS.len() as u64) as usize].clone();
            let c = CONFIGS[(r % CONFIGS.len() as u64) as usize];
            (idx, Case { template: self.templates[idx].0.to_string(), faults: vec![f], cfg: WalkCfg { tolerant: c.0, cached: c.1, stack: c.2 }, junk })
        } else {
            let mut rng = Rng::new(run_seed(ctx.verif_seed, "C14", i - self.enum_total));
            let mut idx = rng.usize(self.templates.len());
            // the 3000-object template is expensive to walk: a smaller share
            if self.templates[idx].0 == "long_chain" && !rng.chance(1, 8) {
                idx = rng.usize(self.templates.len());
            }
            let k = 2 + rng.usize(2);
            let faults = (0..k).map(|_| self.singles[idx][rng.usize(self.singles[idx].len())].clone()).collect();
            let c = CONFIGS[rng.usize(CONFIGS.len())];
            let junk = *rng.pick(&[0usize, 0, 0, 5, 1000]);
            (idx, Case { template: self.templates[idx].0.to_string(), faults, cfg: WalkCfg { tolerant: c.0, cached: c.1, stack: c.2 }, junk })
        }
    }
    fn bytes_of(&self, idx: usize, faults: &[HFault], junk: usize) -> Vec<u8> {
        let mut spec = apply(&self.templates[idx].1, faults);
        spec.junk = b"%junk before the header \n".iter().cycle().take(junk).cloned().collect();
        write_doc(&spec).bytes
    }
    fn case_json(&self, idx: usize, c: &Case) -> J {
        json!({"property": "C14", "template": c.template, "faults": c.faults.iter().map(|f| f.to_json()).collect::<Vec<_>>(), "tolerant": c.cfg.tolerant, "cached": c.cfg.cached, "stack": c.cfg.stack,
            "junk": c.junk, "bytes": hex(&self.bytes_of(idx, &c.faults, c.junk))})
    }
}

impl Check for C14 {
    fn info(&self) -> CheckInfo {
        CheckInfo {
            id: "C14",
            level: "fault_enumeration",
            rule: "one case = a typed template (page tree; name tree + number tree + outlines; Type0/CID/simple fonts with /W, /Differences, ToUnicode; colour spaces with all four function types; stream /Length references, predictors, LZW, CCITT/DCT image parameters; hand-written object stream with /Extends under an xref stream; two-revision files with classic and stream sections; a four-revision file (classic, classic, stream, stream); /Encrypt dictionaries that fail the password check and two RC4-encrypted 'rich' documents (plain and through crypt filters with object streams) that open with the empty user password; page tree, name tree and number tree that are DAGs; a 3000-link /Parent chain without a cycle (faults planted in its first 8 objects); annotations with appearance dictionaries; embedded files, metadata, structure tree, outline destinations and actions, catalog /Dests; the 'rich' document) + structure-aware at-rest faults written through the harness's writer: retarget (every reference field x every object incl. itself, object 0 and an undefined number), boundary (every numeric field x {-1, 0, 1, 2^31-1, 2^32-1, 2^64-1}), nest (25 and 5000 levels), stream /Length reference retargeted, stream data replaced by 49 hostile payloads (PostScript calculator programs, CMaps, content streams incl. inline images without data, object-stream headers, runs of 100 000-150 000 '%', '(' or escaped line ends), every dictionary entry removed, hostile stream dictionary entries (/Length disagreeing with the data, /Filter arrays of 1000 stages, mismatching /DecodeParms, /JBIG2Globals naming the stream itself), hostile /Size /Prev (boundary values, self-loop, and every other section of the file, older or newer) /Root /W /Index /Length of trailer and xref stream; x {strict, tolerant} x {cached, uncached} x {2 MiB, 8 MiB stack} x {no bytes, some bytes before the header} (quick: the last dimension alternates instead of multiplying); walked by the C01 walker under the same meters in a supervised worker process. every name value replaced by 34 names that select another reader and every string value by 14 hostile strings (dates with multi-byte text on a field border, lone byte-order marks, 10 000 bytes); Enumerated part: the complete single-fault space of all templates (thorough; quick: complete except name / string values, of which every third is taken); plus seeded cases with 2-3 simultaneous faults (100 000 quick, 2 000 000 thorough). Non-trivial = outcome differs from the unfaulted template; distinct = hash of (template, faults, configuration)",
            assumptions: vec![
                "planting the hostile structure is generation (stated as such); the simulation part is the resource side: stack size, allocator cap and meters, log-event budget, worker process death".into(),
                "same resource bounds as C01".into(),
                "templates are small (3-40 objects); 'exhaustive for <= 4 objects per schema fragment' of the property's quantifier is covered as every reference field x every object of the template".into(),
            ],
            components_real: vec!["pdf crate (all of it)", "globalcache SyncCache", "process allocator (metered) and thread stacks of the stated sizes"],
            components_stub: vec![],
            per_run_timeout_s: 20,
            required_probes: vec!["fault_retarget", "fault_boundary", "fault_nest", "fault_xref_field", "fault_length_ref", "fault_payload", "fault_drop_key", "fault_stream_key", "outcome_changed"],
            exhaustive: false,
        }
    }
    fn total_runs(&self, tier: Tier) -> u64 {
        let mut me = C14::new();
        me.prepare(tier);
        me.enum_total + Self::random_runs(tier)
    }
    fn run(&mut self, ctx: &WorkerCtx, i: u64) -> RunReport {
        self.prepare(ctx.tier);
        let mut rep = RunReport::default();
        let (idx, case) = self.case_for(ctx, i);
        if i < self.enum_total {
            rep.count("enumerated_cases", 1);
        }
        for f in &case.faults {
            rep.count(&format!("fault_{}", f.kind()), 1);
        }
        let cfg_idx = CONFIGS.iter().position(|c| *c == (case.cfg.tolerant, case.cfg.cached, case.cfg.stack)).unwrap_or(0);
        if !self.base_outcome.contains_key(&(idx, cfg_idx)) {
            let b = self.bytes_of(idx, &[], 0);
            let r = walk(&b, b"", case.cfg, None);
            for (sig, detail) in verdicts(&r) {
                let c = Case { template: case.template.clone(), faults: vec![], cfg: case.cfg, junk: 0 };
                rep.violations.push(Violation { signature: sig, detail, case: self.case_json(idx, &c) });
            }
            self.base_outcome.insert((idx, cfg_idx), r.outcome);
        }
        let bytes = self.bytes_of(idx, &case.faults, case.junk);
        let r = walk(&bytes, b"", case.cfg, None);
        let mut h = Hasher64::new();
        h.str(&case.template);
        h.str(&format!("{:?}", case.faults));
        h.u64(cfg_idx as u64 + 16 * case.junk as u64);
        h.u64(r.outcome);
        h.u64(r.calls);
        h.u64(r.panics.len() as u64 + 1000 * r.meters.len() as u64);
        rep.trace_hash = h.finish();
        rep.nontrivial = r.outcome != self.base_outcome[&(idx, cfg_idx)];
        if rep.nontrivial {
            rep.count("outcome_changed", 1);
        }
        if r.loaded {
            rep.count("loaded_despite_faults", 1);
        }
        rep.count("walker_calls", r.calls);
        rep.count("log_events", r.events);
        rep.count("alloc_calls", r.alloc_calls);
        for (sig, detail) in verdicts(&r) {
            // minimise: drop faults while the signature persists
            let mut best = case.clone();
            let mut k = 0;
            while best.faults.len() > 1 && k < best.faults.len() {
                let mut c = best.clone();
                c.faults.remove(k);
                let rr = walk(&self.bytes_of(idx, &c.faults, c.junk), b"", c.cfg, None);
                if verdicts(&rr).iter().any(|(s, _)| *s == sig) {
                    best = c;
                } else {
                    k += 1;
                }
            }
            rep.violations.push(Violation { signature: sig, detail, case: self.case_json(idx, &best) });
        }
        if i % 7919 == 0 {
            rep.sample = Some(json!({"run": i, "template": case.template, "faults": case.faults.iter().map(|f| f.to_json()).collect::<Vec<_>>(), "tolerant": case.cfg.tolerant, "cached": case.cfg.cached, "stack": case.cfg.stack, "loaded": r.loaded, "calls": r.calls}));
        }
        rep
    }
    fn describe(&mut self, ctx: &WorkerCtx, i: u64) -> J {
        self.prepare(ctx.tier);
        let (idx, case) = self.case_for(ctx, i);
        self.case_json(idx, &case)
    }
    fn replay(&mut self, _ctx: &WorkerCtx, case: &J) -> Vec<Violation> {
        let bytes = match case.get("bytes").and_then(|b| b.as_str()).and_then(unhex) {
            Some(b) => b,
            None => return vec![],
        };
        let cfg = WalkCfg {
            tolerant: case.get("tolerant").and_then(|x| x.as_bool()).unwrap_or(false),
            cached: case.get("cached").and_then(|x| x.as_bool()).unwrap_or(false),
            stack: case.get("stack").and_then(|x| x.as_u64()).unwrap_or(2 << 20) as usize,
        };
        let r = walk(&bytes, b"", cfg, None);
        verdicts(&r).into_iter().map(|(s, d)| Violation { signature: s, detail: d, case: case.clone() }).collect()
    }
}
