//! The C01/C14 walker: open a document from (possibly corrupted) stored bytes and make every read
//! call the properties list, each call under catch_unwind, on a thread with the stack size under
//! test, under the allocation / work meters.

use crate::framework::{clear_last_panic, take_last_panic};
use crate::meter;
use crate::ops::{self, ObjKind, Op, SimFile};
use crate::rng::Hasher64;
use crate::seams::{self, MeterTrip, SimCtl};
use pdf::object::*;
use pdf::primitive::{Name, Primitive};
use std::sync::atomic::Ordering;

#[derive(Clone, Copy, Debug, PartialEq)]
pub struct WalkCfg {
    pub tolerant: bool,
    pub cached: bool,
    /// stack of the walking thread in bytes (2 MiB = Rust's default for spawned threads, 8 MiB = main thread)
    pub stack: usize,
}

#[derive(Clone, Debug, Default)]
pub struct WalkResult {
    pub calls: u64,
    /// (call name, panic site + message)
    pub panics: Vec<(String, String)>,
    /// (meter, call name, detail)
    pub meters: Vec<(String, String, String)>,
    pub outcome: u64,
    pub loaded: bool,
    pub peak: usize,
    pub alloc_calls: u64,
    pub max_req: usize,
    pub decoded: u64,
    pub events: u64,
}

struct W<'a> {
    res: WalkResult,
    h: Hasher64,
    announce: bool,
    stop: bool,
    cfg: WalkCfg,
    password: &'a [u8],
}

impl<'a> W<'a> {
    fn call<T>(&mut self, name: &str, f: impl FnOnce() -> T) -> Option<T> {
        if self.stop {
            return None;
        }
        self.res.calls += 1;
        if self.announce {
            eprintln!("CALL {}", name);
        }
        let r = std::panic::catch_unwind(std::panic::AssertUnwindSafe(f));
        match r {
            Ok(v) => Some(v),
            Err(e) => {
                if let Some(m) = e.downcast_ref::<MeterTrip>() {
                    self.res.meters.push((m.0.to_string(), name.to_string(), String::new()));
                    self.stop = true;
                } else {
                    let p = take_last_panic().unwrap_or_else(|| "panic".into());
                    clear_last_panic();
                    self.res.panics.push((name.to_string(), p));
                    // a panic inside a cache compute leaves the entry in process for good: later
                    // readers of that key would block for real, which is a consequence, not a new fact
                    if self.cfg.cached {
                        self.stop = true;
                    }
                }
                self.h.str("panic");
                None
            }
        }
    }
    fn note<T, E>(&mut self, name: &str, r: &Result<T, E>) {
        self.h.str(name);
        self.h.u64(r.is_ok() as u64);
    }
}

fn apply_function(w: &mut W, f: &Function, label: &str) {
    let dims: Option<(usize, usize)> = w.call(&format!("{}:dims", label), || (f.input_dim(), f.output_dim()));
    if let Some((i, o)) = dims {
        if i > 64 || o > 64 {
            return;
        }
        for x0 in [0.0f32, 1.0, -1.0, 0.5, 1e9, f32::NAN] {
            let x = vec![x0; i.max(1)];
            let mut out = vec![0.0f32; o];
            let r = w.call(&format!("{}:apply", label), || f.apply(&x, &mut out));
            if let Some(r) = r {
                w.note("fn", &r);
            }
        }
    }
}

fn walk_color_space(w: &mut W, cs: &ColorSpace, depth: usize) {
    if depth > 6 {
        return;
    }
    match cs {
        ColorSpace::Separation(_, alt, f) => {
            apply_function(w, f, "Function(Separation)");
            walk_color_space(w, alt, depth + 1);
        }
        ColorSpace::DeviceN { alt, tint, .. } => {
            apply_function(w, tint, "Function(DeviceN)");
            walk_color_space(w, alt, depth + 1);
        }
        ColorSpace::Indexed(base, _, _) => walk_color_space(w, base, depth + 1),
        _ => {}
    }
}

fn walk_resources(w: &mut W, file: &SimFile, res: &impl Resolve, resources: &Resources) {
    let mut names: Vec<&Name> = resources.fonts.keys().collect();
    names.sort();
    for name in names.into_iter().take(4) {
        let lazy = &resources.fonts[name];
        if let Some(Ok(font)) = w.call("Lazy<Font>::load", || lazy.load(res)) {
            let r = w.call("Font::widths", || font.widths(res).map(|o| o.map(|ws| (0..260usize).chain([65535, 1 << 20]).map(|c| ws.get(c).to_bits() as u64).sum::<u64>())));
            if let Some(r) = r {
                w.note("widths", &r);
            }
            let r = w.call("Font::to_unicode", || font.to_unicode(res).map(|r| r.map(|m| m.len())));
            if let Some(Some(r)) = r {
                w.note("tounicode", &r);
            }
            let r = w.call("Font::embedded_data", || font.embedded_data(res).map(|r| r.map(|d| d.len())));
            if let Some(Some(r)) = r {
                w.note("embedded", &r);
            }
            w.call("Font::encoding", || {
                let _ = font.encoding().map(|e| format!("{:?}", e).len());
                let _ = font.cid_to_gid_map().is_some();
                let _ = font.is_cid();
            });
        }
    }
    let mut xs: Vec<(&Name, &Ref<XObject>)> = resources.xobjects.iter().collect();
    xs.sort_by(|a, b| a.0.cmp(b.0));
    for (_, xr) in xs.into_iter().take(4) {
        if let Some(Ok(x)) = w.call("get<XObject>", || res.get(*xr)) {
            match *x {
                XObject::Image(ref img) => {
                    let r = w.call("ImageXObject::raw_image_data", || img.raw_image_data(res).map(|(d, _)| d.len()));
                    if let Some(r) = r {
                        w.note("raw", &r);
                    }
                    let r = w.call("ImageXObject::image_data", || img.image_data(res).map(|d| d.len()));
                    if let Some(r) = r {
                        w.note("img", &r);
                    }
                    if let Some(cs) = &img.color_space {
                        walk_color_space(w, cs, 0);
                    }
                }
                XObject::Form(ref form) => {
                    let r = w.call("FormXObject::operations", || form.operations(res).map(|o| o.len()));
                    if let Some(r) = r {
                        w.note("formops", &r);
                    }
                }
                XObject::Postscript(_) => {}
            }
        }
    }
    let mut css: Vec<(&Name, &ColorSpace)> = resources.color_spaces.iter().collect();
    css.sort_by(|a, b| a.0.cmp(b.0));
    for (_, cs) in css.into_iter().take(4) {
        walk_color_space(w, cs, 0);
    }
    let _ = file;
}

fn walk_file(w: &mut W, file: &SimFile, inv_objects: Option<&[(u64, ObjKind)]>) {
    let res = file.resolver();
    let n = file.num_pages();
    w.h.u64(n as u64);
    for i in (0..n.min(6)).chain([n, u32::MAX]) {
        let page = w.call("File::get_page", || file.get_page(i));
        if let Some(p) = &page {
            w.note("get_page", p);
        }
        if let Some(Ok(page)) = page {
            let r = w.call("Page::media_box", || page.media_box());
            if let Some(r) = r {
                w.note("media", &r);
            }
            let r = w.call("Page::crop_box", || page.crop_box());
            if let Some(r) = r {
                w.note("crop", &r);
            }
            if let Some(Ok(resources)) = w.call("Page::resources", || page.resources().map(|r| r.clone())) {
                walk_resources(w, file, &res, &resources);
            }
            if let Some(c) = &page.contents {
                let r = w.call("Content::operations", || c.operations(&res).map(|o| o.len()));
                if let Some(r) = r {
                    w.note("ops", &r);
                }
            }
            let annots = w.call("Lazy<Annots>::load", || page.annotations.load(&res));
            if let Some(r) = &annots {
                w.note("annots", r);
            }
            if let Some(Ok(list)) = annots {
                for a in list.iter().take(6) {
                    if let Some(ap) = &a.appearance_streams {
                        for entry in [Some(ap.normal), ap.rollover, ap.down].into_iter().flatten() {
                            let r = w.call("get<AppearanceStreamEntry>", || res.get(entry).map(|_| ()));
                            if let Some(r) = r {
                                w.note("ap", &r);
                            }
                        }
                    }
                }
            }
        }
    }
    // catalog: name trees, page labels, outlines, forms
    let root = file.get_root();
    if let Some(names) = &root.names {
        macro_rules! walk_tree {
            ($field:expr, $label:expr) => {
                if let Some(t) = $field {
                    let mut count = 0usize;
                    let r = w.call($label, || t.walk(&res, &mut |_, _| count += 1));
                    if let Some(r) = r {
                        w.note("nametree", &r);
                    }
                }
            };
        }
        walk_tree!(&names.pages, "NameTree::walk");
        walk_tree!(&names.dests, "NameTree::walk");
        walk_tree!(&names.ap, "NameTree::walk");
        walk_tree!(&names.javascript, "NameTree::walk");
        walk_tree!(&names.templates, "NameTree::walk");
        walk_tree!(&names.ids, "NameTree::walk");
        walk_tree!(&names.urls, "NameTree::walk");
        walk_tree!(&names.embedded_files, "NameTree::walk");
        // embedded files: every file specification's streams, typed, with their data
        if let Some(t) = &names.embedded_files {
            let mut streams: Vec<Ref<Stream<EmbeddedFile>>> = Vec::new();
            let _ = w.call("NameTree::walk", || {
                t.walk(&res, &mut |_, spec: &FileSpec| {
                    if let Some(ef) = &spec.ef {
                        streams.extend([ef.f, ef.uf, ef.dos, ef.mac, ef.unix].into_iter().flatten());
                    }
                })
            });
            for r in streams.into_iter().take(8) {
                let s = w.call("get<Stream<EmbeddedFile>>", || res.get(r));
                if let Some(s) = &s {
                    w.note("ef", s);
                }
                if let Some(Ok(s)) = s {
                    let d = w.call("Stream<EmbeddedFile>::data", || (**s.data()).data(&res).map(|d| d.len()));
                    if let Some(d) = d {
                        w.note("efdata", &d);
                    }
                }
            }
        }
    }
    if let Some(m) = root.metadata {
        let s = w.call("get<Stream<()>>", || res.get(m));
        if let Some(s) = &s {
            w.note("metadata", s);
        }
        if let Some(Ok(s)) = s {
            let d = w.call("Stream<()>::data", || (**s.data()).data(&res).map(|d| d.len()));
            if let Some(d) = d {
                w.note("metadata-data", &d);
            }
        }
    }
    if let Some(st) = &root.struct_tree_root {
        for e in st.children.iter().take(8) {
            let r = w.call("get<StructElem>", || res.get(e.parent).map(|_| ()));
            if let Some(r) = r {
                w.note("struct-parent", &r);
            }
            if let Some(pg) = e.page {
                let r = w.call("get<Page>", || res.get(pg).map(|_| ()));
                if let Some(r) = r {
                    w.note("struct-page", &r);
                }
            }
        }
    }
    if let Some(dests) = &root.dests {
        let entries: Vec<Primitive> = dests.iter().take(8).map(|(_, v)| v.clone()).collect();
        for v in entries {
            let r = w.call("Option<Dest>::from_primitive", || <Option<Dest>>::from_primitive(v, &res).map(|_| ()));
            if let Some(r) = r {
                w.note("dest", &r);
            }
        }
    }
    if let Some(labels) = &root.page_labels {
        let mut count = 0usize;
        let r = w.call("NumberTree::walk", || labels.walk(&res, &mut |_, _| count += 1));
        if let Some(r) = r {
            w.note("numtree", &r);
        }
    }
    if let Some(outlines) = &root.outlines {
        let mut next = outlines.first;
        let mut seen = 0;
        while let Some(r) = next {
            seen += 1;
            if seen > 32 {
                break;
            }
            match w.call("get<OutlineItem>", || res.get(r)) {
                Some(Ok(item)) => {
                    next = item.next;
                    if let Some(d) = &item.dest {
                        let d = d.clone();
                        let r = w.call("Option<Dest>::from_primitive", || <Option<Dest>>::from_primitive(d, &res).map(|_| ()));
                        if let Some(r) = r {
                            w.note("outline-dest", &r);
                        }
                    }
                    // the first chain below every top-level item, to a bounded depth
                    let mut down = item.first;
                    let mut levels = 0;
                    while let Some(f) = down {
                        levels += 1;
                        if levels > 8 {
                            break;
                        }
                        match w.call("get<OutlineItem>", || res.get(f)) {
                            Some(Ok(child)) => down = child.first,
                            _ => break,
                        }
                    }
                }
                _ => break,
            }
        }
    }
    if let Some(forms) = &root.forms {
        for f in forms.fields.iter().take(8) {
            for k in f.kids.iter().take(4) {
                let _ = w.call("get<FieldDictionary>", || res.get(*k).map(|_| ()));
            }
        }
    }
    // every object by number, raw and typed
    let size = file.trailer.size.max(0) as u64;
    let limit = size.min(400);
    for id in 1..limit {
        let p = w.call("resolve", || res.resolve(PlainRef { id, gen: 0 }));
        if let Some(p) = &p {
            w.note("resolve", p);
        }
        let kind = match inv_objects.and_then(|o| o.iter().find(|x| x.0 == id)) {
            Some((_, k)) => *k,
            None => match &p {
                Some(Ok(prim)) => ops::classify_pub(prim),
                _ => ObjKind::Unreadable,
            },
        };
        for op in ops::right_ops(id, kind) {
            if matches!(op, Op::Resolve(_)) {
                continue;
            }
            let name = op.kind();
            let a = w.call(&name, || ops::exec(file, &res, false, &op));
            if let Some(a) = a {
                w.h.u64(a.ok as u64);
            }
        }
        if let Some(Ok(Primitive::Dictionary(d))) = &p {
            // functions and colour spaces are reachable as plain objects too
            if d.get("FunctionType").is_some() {
                if let Some(Ok(f)) = w.call("Function::from_primitive", || Function::from_primitive(Primitive::Dictionary(d.clone()), &res)) {
                    apply_function(w, &f, "Function");
                }
            }
        }
        if let Some(Ok(prim @ Primitive::Stream(_))) = &p {
            if let Primitive::Stream(s) = prim {
                if s.info.get("FunctionType").is_some() {
                    if let Some(Ok(f)) = w.call("Function::from_primitive", || Function::from_primitive(prim.clone(), &res)) {
                        apply_function(w, &f, "Function");
                    }
                }
            }
        }
        if let Some(Ok(prim @ Primitive::Array(_))) = &p {
            if let Some(Ok(cs)) = w.call("ColorSpace::from_primitive", || ColorSpace::from_primitive(prim.clone(), &res)) {
                walk_color_space(w, &cs, 0);
            }
        }
    }
    // the recovery scan, to exhaustion (capped)
    let r = w.call("File::scan", || {
        let mut n = 0u64;
        let mut ok = 0u64;
        for item in file.scan() {
            n += 1;
            if item.is_ok() {
                ok += 1;
            }
            if n >= 3000 {
                break;
            }
        }
        (n, ok)
    });
    if let Some((n, ok)) = r {
        w.h.u64(n);
        w.h.u64(ok);
    }
}

/// Run the walk on its own thread with the stack size under test.
pub fn walk(bytes: &[u8], password: &[u8], cfg: WalkCfg, inv_objects: Option<&[(u64, ObjKind)]>) -> WalkResult {
    let announce = std::env::var("VERIF_ANNOUNCE").is_ok();
    let result = std::thread::scope(|scope| {
        std::thread::Builder::new()
            .stack_size(cfg.stack)
            .spawn_scoped(scope, || {
                let mut w = W { res: WalkResult::default(), h: Hasher64::new(), announce, stop: false, cfg, password };
                clear_last_panic();
                crate::digest::LIGHT.with(|l| l.set(true));
                seams::reset_decoded_thread();
                let ctl = SimCtl::new(cfg.cached, cfg.cached);
                ctl.event_budget.store(1_000_000 + 1000 * bytes.len() as u64, Ordering::Relaxed);
                meter::start();
                let pw = w.password;
                let file = w.call("FileOptions::load", || ops::open(bytes, &ctl, cfg.tolerant, pw));
                if let Some(f) = &file {
                    w.note("load", f);
                }
                if let Some(Ok(file)) = file {
                    w.res.loaded = true;
                    walk_file(&mut w, &file, inv_objects);
                    // dropping the document is part of the walk (drop code runs under the meters)
                    w.call("drop", move || drop(file));
                } else if !w.stop {
                    // the document does not open: this is what the recovery scan is for. It runs on the
                    // bare storage (no cross-reference table), to exhaustion (capped)
                    let opts = if cfg.tolerant { pdf::object::ParseOptions::tolerant() } else { pdf::object::ParseOptions::strict() };
                    let storage = w.call("Storage::with_cache", || pdf::file::Storage::with_cache(bytes.to_vec(), opts, seams::SimObjCache(ctl.clone()), seams::SimStmCache(ctl.clone()), seams::SimLog(ctl.clone())));
                    if let Some(Ok(storage)) = storage {
                        let r = w.call("Storage::scan", || {
                            let (mut n, mut ok) = (0u64, 0u64);
                            for item in storage.scan() {
                                n += 1;
                                if item.is_ok() {
                                    ok += 1;
                                }
                                if n >= 3000 {
                                    break;
                                }
                            }
                            (n, ok)
                        });
                        if let Some((n, ok)) = r {
                            w.h.u64(n);
                            w.h.u64(ok);
                        }
                    }
                }
                let m = meter::stop();
                w.res.peak = m.peak;
                w.res.alloc_calls = m.calls;
                w.res.max_req = m.max_req;
                w.res.decoded = seams::decoded_bytes_thread();
                w.res.events = ctl.events();
                w.res.outcome = w.h.finish();
                // resource bounds (DESIGN §3.5): proportional to the input plus the stream data decoded
                let budget_base = bytes.len() as u64 + w.res.decoded;
                if (w.res.peak as u64) > (64u64 << 20) + 64 * budget_base {
                    w.res.meters.push(("peak-live-bytes".into(), "walk".into(), format!("peak {} bytes for input {} + decoded {}", w.res.peak, bytes.len(), w.res.decoded)));
                }
                if w.res.alloc_calls > 2_000_000 + 2000 * budget_base {
                    w.res.meters.push(("allocation-calls".into(), "walk".into(), format!("{} allocation calls for input {} + decoded {}", w.res.alloc_calls, bytes.len(), w.res.decoded)));
                }
                w.res
            })
            .expect("spawn walker")
            .join()
    });
    match result {
        Ok(r) => r,
        Err(_) => {
            // the walker thread itself panicked outside a call: harness bug
            eprintln!("HARNESS-ERROR: walker thread panicked outside a guarded call: {:?}", take_last_panic());
            std::process::exit(2);
        }
    }
}
