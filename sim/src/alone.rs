//! "What the call would return if it ran alone": the same call on a freshly opened, uncached
//! document, single-threaded. Cached per worker.

use crate::digest::Answer;
use crate::docs::Doc;
use crate::ops::{self, Op};
use crate::seams::SimCtl;
use std::collections::BTreeMap;

pub struct Alone {
    answers: BTreeMap<(String, u8, Op), Answer>,
    has_cycle: BTreeMap<String, bool>,
    opens: BTreeMap<(String, u8), bool>,
}

impl Alone {
    pub fn new() -> Alone {
        Alone { answers: BTreeMap::new(), has_cycle: BTreeMap::new(), opens: BTreeMap::new() }
    }
    pub fn answer(&mut self, doc: &Doc, tolerant: bool, op: &Op) -> Answer {
        self.answer_opts(doc, if tolerant { ops::OPTS_TOLERANT } else { ops::OPTS_STRICT }, op)
    }
    /// the same under any combination of the four parse options (bits as in `ops::opts_from_bits`)
    pub fn answer_opts(&mut self, doc: &Doc, bits: u8, op: &Op) -> Answer {
        let key = (doc.label.clone(), bits, op.clone());
        if let Some(a) = self.answers.get(&key) {
            return a.clone();
        }
        let ctl = SimCtl::new(false, false);
        let a = match ops::open_opts(&doc.bytes, &ctl, bits, &doc.password) {
            Ok(file) => {
                let r = file.resolver();
                ops::exec(&file, &r, true, op)
            }
            Err(e) => Answer::err(&e),
        };
        if self.answers.len() > 300_000 {
            self.answers.clear();
        }
        self.answers.insert(key, a.clone());
        a
    }
    /// Does the document open without caches under these options?
    pub fn opens(&mut self, doc: &Doc, bits: u8) -> bool {
        let key = (doc.label.clone(), bits);
        if let Some(b) = self.opens.get(&key) {
            return *b;
        }
        let ctl = SimCtl::new(false, false);
        let b = ops::open_opts(&doc.bytes, &ctl, bits, &doc.password).is_ok();
        self.opens.insert(key, b);
        b
    }
    /// A document "has a typed reference cycle" when a right-typed strict load of one of its
    /// objects, run alone and uncached, fails with the recursion guard's error.
    pub fn doc_has_cycle(&mut self, doc: &Doc) -> bool {
        if let Some(b) = self.has_cycle.get(&doc.label) {
            return *b;
        }
        let mut found = false;
        'outer: for (id, kind) in doc.inv.objects.clone() {
            for op in ops::right_ops(id, kind) {
                if matches!(op, Op::Get(..)) {
                    let a = self.answer(doc, false, &op);
                    if !a.ok && a.text.contains("Recursive reference") {
                        found = true;
                        break 'outer;
                    }
                }
            }
        }
        self.has_cycle.insert(doc.label.clone(), found);
        found
    }
}
