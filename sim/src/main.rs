mod alone;
mod c01;
mod c02;
mod c09;
mod c12;
mod conv;
mod crypt_ref;
mod c13;
mod c14;
mod templates;
mod digest;
mod docgen;
mod docs;
mod families;
mod framework;
mod meter;
mod miri_engine;
mod walker;
mod ops;
mod rng;
mod sched;
mod seams;
mod selftest;

use framework::*;

#[global_allocator]
static ALLOC: meter::Meter = meter::Meter;

fn make_check(id: &str) -> Option<Box<dyn Check>> {
    match id {
        "C01" => Some(Box::new(c01::C01::new())),
        "C02" => Some(Box::new(c02::C02::new())),
        "C09" => Some(Box::new(c09::C09::new())),
        "C12" => Some(Box::new(c12::C12::new())),
        "C14" => Some(Box::new(c14::C14::new())),
        "C13" => Some(Box::new(c13::C13::new())),
        _ => None,
    }
}

/// Second C13 engine: run the Miri scenarios, add their numbers to the evidence file, report failures.
fn miri_stage(tier: Tier, root: &str, _code: i32) -> i32 {
    let inst = std::env::var("VERIF_INST").unwrap_or_default();
    let r = miri_engine::run(tier, &inst, env_seed());
    let ev_path = format!("{}/evidence/C13.json", root);
    if let Ok(text) = std::fs::read_to_string(&ev_path) {
        if let Ok(mut j) = serde_json::from_str::<serde_json::Value>(&text) {
            j["coverage"]["miri_engine"] = r.evidence.clone();
            let extra = r.evidence["executions"].as_u64().unwrap_or(0);
            if let Some(e) = j["coverage"]["evaluations"].as_u64() {
                j["coverage"]["evaluations"] = serde_json::json!(e + extra);
            }
            if let Some(v) = j["violations"].as_u64() {
                j["violations"] = serde_json::json!(v + r.violations.len() as u64);
            }
            let _ = std::fs::write(&ev_path, serde_json::to_string_pretty(&j).unwrap());
        }
    }
    let mut code = 0;
    println!("C13 miri engine: {} executions, {} failure(s), {:.1}s", r.evidence["executions"], r.violations.len(), r.evidence["wall_s"].as_f64().unwrap_or(0.0));
    for (sig, detail, case) in &r.violations {
        let dir = format!("{}/replays/C13", root);
        let _ = std::fs::create_dir_all(&dir);
        let path = format!("{}/miri-{:016x}.json", dir, rng::fnv64(format!("{}{}", sig, case).as_bytes()));
        let _ = std::fs::write(&path, serde_json::to_string_pretty(&serde_json::json!({"property": "C13", "signature": sig, "detail": detail, "case": case})).unwrap());
        println!("VIOLATION property=C13 replay={}", path);
        println!("  signature: {}", sig);
        println!("  detail: {}", detail);
        code = 1;
    }
    for e in &r.harness_errors {
        eprintln!("HARNESS-ERROR: {}", e);
        code = 2;
    }
    code
}

fn env_seed() -> u64 {
    std::env::var("VERIF_SEED").ok().and_then(|s| s.parse().ok()).unwrap_or(1)
}

fn main() {
    // everything runs on a thread with a large stack: the harness's own rendering and shrinking
    // must never be what overflows (C01/C14 walks get their own threads with the stack under test)
    let h = std::thread::Builder::new().stack_size(512 << 20).spawn(real_main).expect("spawn main");
    let _ = h.join();
    std::process::exit(3);
}

fn real_main() {
    let args: Vec<String> = std::env::args().collect();
    seams::install_hooks();
    install_panic_hook();
    let repo = std::env::var("PDF_REPO").unwrap_or_else(|_| "/repo".into());
    let root = std::env::var("VERIF_ROOT").unwrap_or_else(|_| "/verif".into());
    let a = |i: usize| args.get(i).map(|s| s.as_str()).unwrap_or("");
    let code = match a(1) {
        "selftest-docs" => selftest::docs(a(2).parse().unwrap_or(50)),
        "selftest-determinism-one" => determinism_selftest(&[a(2)], a(3).parse().unwrap_or(2000), env_seed()),
        "selftest-determinism" => determinism_selftest(&["C01", "C02", "C09", "C12", "C13", "C14"], a(2).parse().unwrap_or(2000), env_seed()),
        "dump-doc" => {
            // pdfsim dump-doc <family> <k> <out path>
            let fam = match a(2) {
                "two_leaf" => families::Family::TwoLeaf,
                "cyclic_parents" => families::Family::CyclicParents,
                "deep_tree" => families::Family::DeepTree,
                "rich_encrypted" => families::Family::RichEncrypted,
                "dangling" => families::Family::Dangling,
                "shared_header" => families::Family::SharedHeader,
                "jbig_cycle" => families::Family::JbigCycle,
                "long_parents" => families::Family::LongParents,
                "icc_cycle" => families::Family::IccCycle,
                "self_kid" => families::Family::SelfKid,
                _ => families::Family::Rich,
            };
            let mut pool = docs::Pool::new(&repo, env_seed());
            let d = pool.generated(&fam, a(3).parse().unwrap_or(0));
            std::fs::write(a(4), &d.bytes[..]).map(|_| 0).unwrap_or(2)
        }
        "--describe" => {
            // pdfsim --describe <id> <tier> <seed> <run>
            match make_check(a(2)) {
                Some(mut c) => {
                    let ctx = WorkerCtx { verif_seed: a(4).parse().unwrap_or(1), tier: Tier::parse(a(3)).unwrap_or(Tier::Quick), repo };
                    println!("{}", c.describe(&ctx, a(5).parse().unwrap_or(0)));
                    0
                }
                None => 2,
            }
        }
        "--worker" | "--worker-list" => {
            let mut check = match make_check(a(2)) {
                Some(c) => c,
                None => std::process::exit(2),
            };
            let tier = Tier::parse(a(3)).unwrap_or(Tier::Quick);
            let seed: u64 = a(4).parse().unwrap_or(1);
            let ctx = WorkerCtx { verif_seed: seed, tier, repo };
            if a(1) == "--worker" {
                worker_main(check.as_mut(), &ctx, a(5).parse().unwrap_or(0), a(6).parse().unwrap_or(1), a(7).parse().unwrap_or(0))
            } else {
                let mut rc = 0;
                for i in a(5).split(',').filter_map(|x| x.parse::<u64>().ok()) {
                    rc |= worker_main(check.as_mut(), &ctx, i, 1, i + 1);
                }
                rc
            }
        }
        id => match make_check(id) {
            None => {
                eprintln!("usage: pdfsim <C01|C02|C09|C12|C13|C14> quick|thorough | <id> --replay <file> | selftest-docs");
                2
            }
            Some(mut check) => {
                if a(2) == "--replay" {
                    let ctx = WorkerCtx { verif_seed: env_seed(), tier: Tier::Quick, repo };
                    // recorded failures of the Miri engine are replayed by Miri seed
                    let miri_case = std::fs::read_to_string(a(3)).ok().and_then(|t| serde_json::from_str::<serde_json::Value>(&t).ok()).filter(|j| j["case"]["engine"] == "miri");
                    if let Some(j) = miri_case {
                        let inst = std::env::var("VERIF_INST").unwrap_or_default();
                        match miri_engine::replay(&inst, &j["case"]) {
                            Some((sig, detail)) if Some(sig.as_str()) == j["signature"].as_str() => {
                                println!("REPRODUCED {}\n  {}", sig, detail);
                                1
                            }
                            other => {
                                println!("NOT-REPRODUCED want {:?} got {:?}", j["signature"], other.map(|x| x.0));
                                0
                            }
                        }
                    } else {
                        replay_main(check.as_mut(), &ctx, a(3))
                    }
                } else {
                    let tier = match Tier::parse(a(2)).or_else(|| std::env::var("VERIF_TIER").ok().and_then(|t| Tier::parse(&t))) {
                        Some(t) => t,
                        None => {
                            eprintln!("usage: pdfsim {} quick|thorough", id);
                            std::process::exit(2);
                        }
                    };
                    let info = check.info();
                    let total = std::env::var("VERIF_RUNS").ok().and_then(|s| s.parse().ok()).unwrap_or_else(|| check.total_runs(tier));
                    let mut code = supervisor_main(&info, total, tier, env_seed(), &root);
                    if id == "C13" && std::env::var("VERIF_NO_MIRI").is_err() {
                        code = code.max(miri_stage(tier, &root, code));
                    }
                    code
                }
            }
        },
    };
    std::process::exit(code);
}
