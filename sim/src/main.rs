fn main() { println!("pdfsim skeleton"); }
