mod digest;
mod docgen;
mod families;
mod ops;
mod rng;
mod sched;
mod seams;

use rng::Rng;

fn selftest_docs(n: u64) -> i32 {
    let mut bad = 0;
    for seed in 0..n {
        for fam in [families::Family::Rich, families::Family::TwoLeaf, families::Family::CyclicParents] {
            let mut rng = Rng::new(rng::run_seed(1, fam.name(), seed));
            let spec = families::generate(&fam, &mut rng);
            let w = docgen::write_doc(&spec);
            if let Err(e) = docgen::self_check(&spec, &w) {
                println!("SELF-CHECK FAIL {} seed {}: {}", fam.name(), seed, e);
                bad += 1;
                continue;
            }
            let j = spec.to_json();
            let back = docgen::DocSpec::from_json(&j);
            if back.as_ref() != Some(&spec) {
                println!("JSON ROUNDTRIP FAIL {} seed {}", fam.name(), seed);
                bad += 1;
            }
            let inv = ops::inventory(&w.bytes, b"");
            if !inv.loadable {
                let ctl = seams::SimCtl::new(false, false);
                let e = ops::open(&w.bytes, &ctl, false, b"").err();
                println!("LOAD FAIL {} seed {}: {:?}", fam.name(), seed, e);
                std::fs::write(format!("/tmp/fail_{}_{}.pdf", fam.name(), seed), &w.bytes).ok();
                bad += 1;
                continue;
            }
            if seed < 2 {
                println!("{} seed {}: {} bytes, size {}, pages {}", fam.name(), seed, w.bytes.len(), inv.size, inv.n_pages);
                let ctl = seams::SimCtl::new(false, false);
                let file = ops::open(&w.bytes, &ctl, false, b"").unwrap();
                let res = file.resolver();
                for (id, kind) in &inv.objects {
                    for op in ops::right_ops(*id, *kind) {
                        let a = ops::exec(&file, &res, false, &op);
                        println!("   {:?} {:?} -> {}", kind, op, a.text);
                    }
                }
                for p in 0..inv.n_pages {
                    for op in [ops::Op::GetPage(p), ops::Op::PageWalk(p), ops::Op::LazyAnnots(p), ops::Op::LazyFont(p)] {
                        let a = ops::exec(&file, &res, false, &op);
                        println!("   {:?} -> {}", op, a.text);
                    }
                }
            }
        }
    }
    println!("selftest-docs: {} failures", bad);
    if bad > 0 { 2 } else { 0 }
}

fn main() {
    let args: Vec<String> = std::env::args().collect();
    seams::install_hooks();
    let code = match args.get(1).map(|s| s.as_str()) {
        Some("selftest-docs") => selftest_docs(args.get(2).and_then(|s| s.parse().ok()).unwrap_or(50)),
        _ => { eprintln!("usage"); 2 }
    };
    std::process::exit(code);
}
