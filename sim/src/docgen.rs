//! The harness's independent PDF writer (trusted base) and a minimal strict reader that
//! cross-checks it. Nothing here goes through pdf's serializer, encoders or save path.
//!
//! A document is a list of revisions (an original body plus incremental updates). Each revision
//! mentions some object numbers: defines them directly, places them in an object stream, or
//! frees them; and ends with a classic cross-reference table or a cross-reference stream.

use crate::rng::Rng;
use serde_json::{json, Value as J};
use std::collections::BTreeMap;

pub type Dict = Vec<(String, Val)>;

#[derive(Clone, Debug, PartialEq)]
pub enum Val {
    Null,
    Bool(bool),
    Int(i64),
    Real(f64),
    Name(String),
    Str(Vec<u8>),
    Arr(Vec<Val>),
    Dict(Dict),
    Ref(u32, u16),
    /// token text written verbatim (hostile numbers that do not fit the other variants);
    /// "@xref" is replaced by the offset of the section being written
    Raw(String),
}

impl Val {
    pub fn name(s: &str) -> Val {
        Val::Name(s.to_string())
    }
    pub fn dict(items: Vec<(&str, Val)>) -> Val {
        Val::Dict(items.into_iter().map(|(k, v)| (k.to_string(), v)).collect())
    }
    pub fn r(n: u32) -> Val {
        Val::Ref(n, 0)
    }
    pub fn ints(xs: &[i64]) -> Val {
        Val::Arr(xs.iter().map(|&x| Val::Int(x)).collect())
    }
    pub fn get(&self, key: &str) -> Option<&Val> {
        match self {
            Val::Dict(d) => d.iter().find(|(k, _)| k == key).map(|(_, v)| v),
            _ => None,
        }
    }
    pub fn set(&mut self, key: &str, v: Val) {
        if let Val::Dict(d) = self {
            if let Some(slot) = d.iter_mut().find(|(k, _)| k == key) {
                slot.1 = v;
            } else {
                d.push((key.to_string(), v));
            }
        }
    }
    pub fn to_json(&self) -> J {
        match self {
            Val::Null => J::Null,
            Val::Bool(b) => json!(b),
            Val::Int(i) => json!({ "i": i }),
            Val::Real(r) => json!({ "r": r }),
            Val::Name(n) => json!({ "n": n }),
            Val::Str(s) => json!({ "s": hex(s) }),
            Val::Arr(a) => J::Array(a.iter().map(|v| v.to_json()).collect()),
            Val::Dict(d) => json!({ "d": dict_to_json(d) }),
            Val::Ref(n, g) => json!({ "ref": [n, g] }),
            Val::Raw(t) => json!({ "raw": t }),
        }
    }
    pub fn from_json(j: &J) -> Option<Val> {
        Some(match j {
            J::Null => Val::Null,
            J::Bool(b) => Val::Bool(*b),
            J::Array(a) => Val::Arr(a.iter().map(Val::from_json).collect::<Option<Vec<_>>>()?),
            J::Object(o) => {
                if let Some(i) = o.get("i") {
                    Val::Int(i.as_i64()?)
                } else if let Some(r) = o.get("r") {
                    Val::Real(r.as_f64()?)
                } else if let Some(n) = o.get("n") {
                    Val::Name(n.as_str()?.to_string())
                } else if let Some(s) = o.get("s") {
                    Val::Str(unhex(s.as_str()?)?)
                } else if let Some(d) = o.get("d") {
                    Val::Dict(dict_from_json(d)?)
                } else if let Some(t) = o.get("raw") {
                    Val::Raw(t.as_str()?.to_string())
                } else if let Some(r) = o.get("ref") {
                    Val::Ref(r.get(0)?.as_u64()? as u32, r.get(1)?.as_u64()? as u16)
                } else {
                    return None;
                }
            }
            _ => return None,
        })
    }
}

pub fn dict_to_json(d: &Dict) -> J {
    J::Array(d.iter().map(|(k, v)| json!([k, v.to_json()])).collect())
}
pub fn dict_from_json(j: &J) -> Option<Dict> {
    j.as_array()?
        .iter()
        .map(|kv| Some((kv.get(0)?.as_str()?.to_string(), Val::from_json(kv.get(1)?)?)))
        .collect()
}

pub fn hex(b: &[u8]) -> String {
    let mut s = String::with_capacity(b.len() * 2);
    for x in b {
        s.push_str(&format!("{:02x}", x));
    }
    s
}
pub fn unhex(s: &str) -> Option<Vec<u8>> {
    let b = s.as_bytes();
    if b.len() % 2 != 0 {
        return None;
    }
    let h = |c: u8| -> Option<u8> {
        match c {
            b'0'..=b'9' => Some(c - b'0'),
            b'a'..=b'f' => Some(c - b'a' + 10),
            b'A'..=b'F' => Some(c - b'A' + 10),
            _ => None,
        }
    };
    b.chunks(2).map(|p| Some(h(p[0])? * 16 + h(p[1])?)).collect()
}

#[derive(Clone, Debug, PartialEq)]
pub enum Body {
    Plain(Val),
    /// `dict` without /Length (the writer adds it). `len_ref`: write /Length as a reference to
    /// that object number (which the same document must define as the right integer).
    Stream { dict: Dict, data: Vec<u8>, len_ref: Option<u32> },
}

#[derive(Clone, Debug, PartialEq)]
pub enum Slot {
    Direct { gen: u16, body: Body },
    /// member of the object stream `stm` (an object number listed in `Revision::objstms`)
    Compressed { stm: u32, val: Val },
    /// cross-reference entry "free", `gen` is the generation a reuse would carry
    Free { gen: u16 },
    /// a type-2 entry pointing at (object stream, index) without the writer building that stream
    /// (hostile templates write the object stream themselves as an ordinary stream object)
    RawCompressed { stm: u32, idx: u32 },
}

#[derive(Clone, Copy, Debug, PartialEq)]
pub enum StmFilter {
    None,
    /// zlib container with stored (uncompressed) deflate blocks, written from the specification
    FlateStored,
    AsciiHex,
    /// LZW as standard encoders write it (weezl, /EarlyChange 1)
    Lzw,
    /// two stages: /Filter [/ASCIIHexDecode /FlateDecode] (parameters, if any, belong to the second:
    /// /DecodeParms [null << .. >>])
    HexFlate,
    /// ASCII85 as standard encoders write it: `z` for a zero group, a short final group of n bytes
    /// as n+1 digits, `~>` at the end, a line break every 15 groups
    Ascii85,
}

#[derive(Clone, Debug, PartialEq)]
pub struct ObjStmSpec {
    pub num: u32,
    pub filter: StmFilter,
    /// white space after the last member (true) or the data ends flush with the member (false)
    pub trailing_ws: bool,
    /// a superseded copy of the first member (same object number, another value) is left in front of
    /// the members; the cross-reference entries name the real copies by index
    pub stale_first: bool,
}

#[derive(Clone, Debug, PartialEq)]
pub enum XrefStyle {
    /// classic table; `cuts` are extra subsection boundaries (object numbers at which a run is split)
    Classic { cuts: Vec<u32> },
    /// cross-reference stream with object number `num`; `w` field widths (w[0] may be 0 when every
    /// entry of this section is in-use-uncompressed); `cuts` split /Index runs; `filter` on the data
    /// `predictor` (0 = none; 2, 10..=15) is applied to the rows before a Flate or LZW filter, with
    /// /DecodeParms << /Predictor p /Columns (w0+w1+w2) >>
    Stream { num: u32, w: [usize; 3], cuts: Vec<u32>, filter: StmFilter, predictor: u8 },
}

#[derive(Clone, Debug, PartialEq)]
pub struct Revision {
    pub slots: BTreeMap<u32, Slot>,
    pub objstms: Vec<ObjStmSpec>,
    pub style: XrefStyle,
    pub size: u32,
    pub root: Val,
    /// extra trailer entries (e.g. /Info, /ID, marker keys)
    pub trailer: Dict,
    /// entries that replace (or are added to) the generated trailer / xref-stream dictionary
    /// entries of the same key (hostile /Size, /Prev, /W, /Index, ...)
    pub overrides: Dict,
}

#[derive(Clone, Debug, PartialEq)]
pub struct DocSpec {
    /// bytes before the header (must not contain "%PDF-")
    pub junk: Vec<u8>,
    pub revisions: Vec<Revision>,
    /// the document is encrypted (RC4): strings and stream data of every object but `enc_obj` and
    /// the cross-reference streams are written encrypted with the key of the object they are stored in
    pub encrypt: Option<crate::crypt_ref::EncSpec>,
}

pub struct Written {
    pub bytes: Vec<u8>,
    /// length of the medium after each revision's %%EOF (+ newline)
    pub rev_end: Vec<usize>,
}

// ---------------------------------------------------------------------------------------------
// serializer (conservative: one token style, regular-character names only)

pub fn is_regular_name(s: &str) -> bool {
    !s.is_empty() && s.bytes().all(|b| b.is_ascii_alphanumeric() || b == b'_' || b == b'-' || b == b'.' || b == b'+')
}

pub fn write_val(out: &mut Vec<u8>, v: &Val) {
    match v {
        Val::Null => out.extend_from_slice(b"null"),
        Val::Bool(b) => out.extend_from_slice(if *b { b"true" } else { b"false" }),
        Val::Int(i) => out.extend_from_slice(i.to_string().as_bytes()),
        Val::Real(r) => {
            assert!(r.is_finite());
            let mut s = format!("{}", r);
            if !s.contains('.') {
                s.push_str(".0");
            }
            assert!(!s.contains('e') && !s.contains('E'));
            out.extend_from_slice(s.as_bytes());
        }
        Val::Name(n) => {
            assert!(is_regular_name(n), "docgen only writes regular names: {:?}", n);
            out.push(b'/');
            out.extend_from_slice(n.as_bytes());
        }
        Val::Str(s) => {
            if s.iter().all(|&b| (0x20..0x7f).contains(&b)) {
                out.push(b'(');
                for &b in s {
                    if b == b'(' || b == b')' || b == b'\\' {
                        out.push(b'\\');
                    }
                    out.push(b);
                }
                out.push(b')');
            } else {
                out.push(b'<');
                out.extend_from_slice(hex(s).as_bytes());
                out.push(b'>');
            }
        }
        Val::Arr(a) => {
            out.push(b'[');
            for (i, x) in a.iter().enumerate() {
                if i > 0 {
                    out.push(b' ');
                }
                write_val(out, x);
            }
            out.push(b']');
        }
        Val::Dict(d) => write_dict(out, d),
        Val::Ref(n, g) => out.extend_from_slice(format!("{} {} R", n, g).as_bytes()),
        Val::Raw(t) => out.extend_from_slice(t.as_bytes()),
    }
}

pub fn write_dict(out: &mut Vec<u8>, d: &Dict) {
    out.extend_from_slice(b"<<");
    for (k, v) in d {
        out.push(b' ');
        write_val(out, &Val::Name(k.clone()));
        out.push(b' ');
        write_val(out, v);
    }
    out.extend_from_slice(b" >>");
}

fn adler32(data: &[u8]) -> u32 {
    let (mut a, mut b) = (1u32, 0u32);
    for &x in data {
        a = (a + x as u32) % 65521;
        b = (b + a) % 65521;
    }
    (b << 16) | a
}

/// zlib stream made only of stored blocks (RFC 1950 / RFC 1951 §3.2.4).
pub fn zlib_stored(data: &[u8]) -> Vec<u8> {
    let mut out = vec![0x78, 0x01];
    let mut chunks: Vec<&[u8]> = data.chunks(65535).collect();
    if chunks.is_empty() {
        chunks.push(&[]);
    }
    let n = chunks.len();
    for (i, c) in chunks.into_iter().enumerate() {
        out.push(if i + 1 == n { 1 } else { 0 });
        let len = c.len() as u16;
        out.extend_from_slice(&len.to_le_bytes());
        out.extend_from_slice(&(!len).to_le_bytes());
        out.extend_from_slice(c);
    }
    out.extend_from_slice(&adler32(data).to_be_bytes());
    out
}

/// LZW as PDF writers produce it (8-bit symbols, codes from 9 bits, most significant bit first),
/// with the code width changing one code early (`/EarlyChange 1`, the default) or not (0).
pub fn lzw(data: &[u8], early_change: bool) -> Vec<u8> {
    use weezl::{encode::Encoder, BitOrder};
    let mut enc = if early_change { Encoder::with_tiff_size_switch(BitOrder::Msb, 8) } else { Encoder::new(BitOrder::Msb, 8) };
    let mut out = vec![];
    enc.into_stream(&mut out).encode_all(data).status.expect("lzw encode");
    out
}

pub fn ascii_hex(data: &[u8]) -> Vec<u8> {
    let mut out = Vec::with_capacity(data.len() * 2 + 1);
    for (i, b) in data.iter().enumerate() {
        if i > 0 && i % 32 == 0 {
            out.push(b'\n');
        }
        out.extend_from_slice(format!("{:02X}", b).as_bytes());
    }
    // a final 0 digit may be left out (ISO 32000-1 7.4.2: an odd number of digits is completed by 0);
    // done for data of odd length, so that both forms occur
    if data.len() % 2 == 1 && data.last().map_or(false, |b| b & 0x0f == 0) {
        out.pop();
    }
    out.push(b'>');
    out
}

fn filter_val(names: &str) -> Val {
    let v: Vec<Val> = names.split(' ').map(Val::name).collect();
    if v.len() == 1 {
        v.into_iter().next().unwrap()
    } else {
        Val::Arr(v)
    }
}

pub fn apply_filter(f: StmFilter, data: &[u8]) -> (Vec<u8>, Option<&'static str>) {
    match f {
        StmFilter::None => (data.to_vec(), None),
        StmFilter::FlateStored => (zlib_stored(data), Some("FlateDecode")),
        StmFilter::AsciiHex => (ascii_hex(data), Some("ASCIIHexDecode")),
        StmFilter::Lzw => (lzw(data, true), Some("LZWDecode")),
        StmFilter::HexFlate => (ascii_hex(&zlib_stored(data)), Some("ASCIIHexDecode FlateDecode")),
        StmFilter::Ascii85 => (ascii85(data), Some("ASCII85Decode")),
    }
}

pub fn ascii85(data: &[u8]) -> Vec<u8> {
    let mut out = Vec::with_capacity(data.len() / 4 * 5 + 8);
    for (gi, g) in data.chunks(4).enumerate() {
        if gi > 0 && gi % 15 == 0 {
            out.push(b'\n');
        }
        let mut w = [0u8; 4];
        w[..g.len()].copy_from_slice(g);
        let mut n = u32::from_be_bytes(w) as u64;
        if g.len() == 4 && n == 0 {
            out.push(b'z');
            continue;
        }
        let mut d = [0u8; 5];
        for i in (0..5).rev() {
            d[i] = (n % 85) as u8 + b'!';
            n /= 85;
        }
        out.extend_from_slice(&d[..g.len() + 1]);
    }
    out.extend_from_slice(b"~>");
    out
}

/// independent decoder for the writer's own reader (full groups, `z`, short final group padded with `u`)
pub fn unascii85(raw: &[u8]) -> Option<Vec<u8>> {
    let mut out = vec![];
    let mut g: Vec<u64> = vec![];
    for &c in raw {
        match c {
            b'\n' | b'\r' | b' ' | b'\t' => {}
            b'~' => break,
            b'z' if g.is_empty() => out.extend_from_slice(&[0; 4]),
            b'!'..=b'u' => {
                g.push((c - b'!') as u64);
                if g.len() == 5 {
                    let n = g.iter().fold(0u64, |a, d| a * 85 + d);
                    out.extend_from_slice(&u32::try_from(n).ok()?.to_be_bytes());
                    g.clear();
                }
            }
            _ => return None,
        }
    }
    if g.len() == 1 {
        return None;
    }
    if !g.is_empty() {
        let k = g.len();
        while g.len() < 5 {
            g.push(84);
        }
        let n = g.iter().fold(0u64, |a, d| a * 85 + d);
        out.extend_from_slice(&u32::try_from(n).ok()?.to_be_bytes()[..k - 1]);
    }
    Some(out)
}

/// How a stream with rows of `row` bytes declares its predictor geometry: (colours, bits per
/// component, columns, bytes per pixel). A pure function of the stream's object number, so that the
/// writer and the strict reader agree without another recorded quantity and without another random
/// draw: one third of the even rows are declared as 16-bit samples, one third as two colours of 8
/// bits (both: left neighbour two bytes away), one sixth of all rows as 4-bit samples (left neighbour
/// one byte away, twice as many columns); the rest as one colour of 8 bits. The TIFF predictor keeps
/// 8-bit samples (ISO 32000-1 allows more, the library states that it does not).
pub fn geometry(num: u32, row: usize, predictor: u8) -> (i64, i64, i64, usize) {
    let png = predictor >= 10;
    if row % 2 == 0 && num % 3 == 1 && png {
        (1, 16, row as i64 / 2, 2)
    } else if row % 2 == 0 && num % 3 == 2 {
        (2, 8, row as i64 / 2, 2)
    } else if num % 6 == 3 && png {
        (1, 4, row as i64 * 2, 1)
    } else {
        (1, 8, row as i64, 1)
    }
}

/// Predictor encoding of `data` in rows of `row` bytes whose pixels are `bpp` bytes wide:
/// 2 = TIFF horizontal differencing; 10..=14 = PNG None / Sub / Up / Average / Paeth on every row;
/// 15 = PNG "optimum": the five PNG filters in rotation. `data.len()` is a multiple of `row`.
pub fn predict(data: &[u8], row: usize, predictor: u8, bpp: usize) -> Vec<u8> {
    assert!(row > 0 && data.len() % row == 0);
    let mut out = vec![];
    let zero = vec![0u8; row];
    for (k, cur) in data.chunks(row).enumerate() {
        let prev: &[u8] = if k == 0 { &zero } else { &data[(k - 1) * row..k * row] };
        if predictor == 2 {
            for i in 0..row {
                out.push(cur[i].wrapping_sub(if i >= bpp { cur[i - bpp] } else { 0 }));
            }
            continue;
        }
        let tag = if predictor == 15 { (k % 5) as u8 } else { predictor - 10 };
        out.push(tag);
        for i in 0..row {
            let a = if i >= bpp { cur[i - bpp] } else { 0 } as i32;
            let b = prev[i] as i32;
            let c = if i >= bpp { prev[i - bpp] } else { 0 } as i32;
            let pred = match tag {
                0 => 0,
                1 => a,
                2 => b,
                3 => (a + b) / 2,
                _ => {
                    let p = a + b - c;
                    let (pa, pb, pc) = ((p - a).abs(), (p - b).abs(), (p - c).abs());
                    if pa <= pb && pa <= pc {
                        a
                    } else if pb <= pc {
                        b
                    } else {
                        c
                    }
                }
            };
            out.push(cur[i].wrapping_sub(pred as u8));
        }
    }
    out
}

/// Inverse of `predict` (for the strict reader).
pub fn unpredict(data: &[u8], row: usize, predictor: u8, bpp: usize) -> Option<Vec<u8>> {
    let mut out: Vec<u8> = vec![];
    let step = if predictor == 2 { row } else { row + 1 };
    if row == 0 || data.len() % step != 0 {
        return None;
    }
    for (k, chunk) in data.chunks(step).enumerate() {
        let start = out.len();
        if predictor == 2 {
            for i in 0..row {
                let a = if i >= bpp { out[start + i - bpp] } else { 0 };
                out.push(chunk[i].wrapping_add(a));
            }
            continue;
        }
        let tag = chunk[0];
        for i in 0..row {
            let a = if i >= bpp { out[start + i - bpp] } else { 0 } as i32;
            let b = if k > 0 { out[start - row + i] } else { 0 } as i32;
            let c = if k > 0 && i >= bpp { out[start - row + i - bpp] } else { 0 } as i32;
            let pred = match tag {
                0 => 0,
                1 => a,
                2 => b,
                3 => (a + b) / 2,
                4 => {
                    let p = a + b - c;
                    let (pa, pb, pc) = ((p - a).abs(), (p - b).abs(), (p - c).abs());
                    if pa <= pb && pa <= pc {
                        a
                    } else if pb <= pc {
                        b
                    } else {
                        c
                    }
                }
                _ => return None,
            };
            out.push(chunk[1 + i].wrapping_add(pred as u8));
        }
    }
    Some(out)
}

fn write_stream_obj(out: &mut Vec<u8>, dict: &Dict, data: &[u8], len_ref: Option<u32>) {
    let mut d = dict.clone();
    // "@Length": a hostile /Length written instead of the true one
    let forced = d.iter().find(|(k, _)| k == "@Length").map(|(_, v)| v.clone());
    d.retain(|(k, _)| k != "Length" && k != "@Length");
    match (forced, len_ref) {
        (Some(v), _) => d.push(("Length".into(), v)),
        (None, Some(n)) => d.push(("Length".into(), Val::Ref(n, 0))),
        (None, None) => d.push(("Length".into(), Val::Int(data.len() as i64))),
    }
    write_dict(out, &d);
    out.extend_from_slice(b"\nstream\n");
    out.extend_from_slice(data);
    out.extend_from_slice(b"\nendstream");
}

#[derive(Clone, Copy, Debug)]
enum Entry {
    Free { next: u32, gen: u16 },
    InUse { off: usize, gen: u16 },
    Compressed { stm: u32, idx: usize },
}

/// Write /Index pairs with count 0 into cross-reference streams (switched on by the C02 check only,
/// so that the documents of the other checks keep their bytes).
pub static EMPTY_INDEX_PAIRS: std::sync::atomic::AtomicBool = std::sync::atomic::AtomicBool::new(false);

fn runs(nums: &[u32], cuts: &[u32]) -> Vec<(u32, u32)> {
    // consecutive runs of object numbers, additionally split at every number in `cuts`
    let mut out: Vec<(u32, u32)> = vec![];
    for &n in nums {
        match out.last_mut() {
            Some((first, count)) if *first + *count == n && !cuts.contains(&n) => *count += 1,
            _ => out.push((n, 1)),
        }
    }
    out
}

pub fn write_doc(spec: &DocSpec) -> Written {
    // "@xref:k" in an override stands for the offset of revision k's cross-reference section, older or
    // newer than the one being written; it is written as ten digits, so a first pass with zeros
    // yields the offsets and a second pass writes them without moving anything
    let forward = spec.revisions.iter().any(|r| r.overrides.iter().any(|(_, v)| matches!(v, Val::Raw(t) if t.starts_with("@xref:"))));
    if forward {
        let (_, offs) = write_doc_pass(spec, &[]);
        write_doc_pass(spec, &offs).0
    } else {
        write_doc_pass(spec, &[]).0
    }
}

fn write_doc_pass(spec: &DocSpec, section_offsets: &[usize]) -> (Written, Vec<usize>) {
    let mut xref_offs: Vec<usize> = vec![];
    let mut out: Vec<u8> = vec![];
    out.extend_from_slice(&spec.junk);
    let base = out.len();
    out.extend_from_slice(b"%PDF-1.7\n%\xE2\xE3\xCF\xD3\n");
    let mut prev: Option<usize> = None;
    let mut rev_end = vec![];
    for (ri, rev) in spec.revisions.iter().enumerate() {
        let mut entries: BTreeMap<u32, Entry> = BTreeMap::new();
        if ri == 0 {
            entries.insert(0, Entry::Free { next: 0, gen: 65535 });
        }
        // direct objects and frees
        for (&num, slot) in &rev.slots {
            match slot {
                Slot::Direct { gen, body } => {
                    let off = out.len() - base;
                    out.extend_from_slice(format!("{} {} obj\n", num, gen).as_bytes());
                    match (body, &spec.encrypt) {
                        (Body::Plain(v), Some(e)) if num != e.enc_obj => write_val(&mut out, &e.crypt_val(v, num, *gen)),
                        (Body::Stream { dict, data, len_ref }, Some(e)) if num != e.enc_obj => {
                            let d = match e.crypt_val(&Val::Dict(dict.clone()), num, *gen) {
                                Val::Dict(d) => d,
                                _ => unreachable!(),
                            };
                            write_stream_obj(&mut out, &d, &e.crypt_data(data, num, *gen), *len_ref)
                        }
                        (Body::Plain(v), _) => write_val(&mut out, v),
                        (Body::Stream { dict, data, len_ref }, _) => write_stream_obj(&mut out, dict, data, *len_ref),
                    }
                    out.extend_from_slice(b"\nendobj\n");
                    entries.insert(num, Entry::InUse { off, gen: *gen });
                }
                Slot::Free { gen } => {
                    entries.insert(num, Entry::Free { next: 0, gen: *gen });
                }
                Slot::RawCompressed { stm, idx } => {
                    entries.insert(num, Entry::Compressed { stm: *stm, idx: *idx as usize });
                }
                Slot::Compressed { .. } => {}
            }
        }
        // object streams
        for os in &rev.objstms {
            let members: Vec<(u32, &Val)> = rev
                .slots
                .iter()
                .filter_map(|(&n, s)| match s {
                    Slot::Compressed { stm, val } if *stm == os.num => Some((n, val)),
                    _ => None,
                })
                .collect();
            let mut bodies: Vec<u8> = vec![];
            let mut header = String::new();
            let mut shift = 0;
            if os.stale_first {
                if let Some((n, _)) = members.first() {
                    header.push_str(&format!("{} 0 ", n));
                    write_val(&mut bodies, &Val::dict(vec![("Stale", Val::Int(-777))]));
                    shift = 1;
                }
            }
            for (i, (n, v)) in members.iter().enumerate() {
                if i + shift > 0 {
                    bodies.push(b'\n');
                }
                header.push_str(&format!("{} {} ", n, bodies.len()));
                write_val(&mut bodies, v);
                entries.insert(*n, Entry::Compressed { stm: os.num, idx: i + shift });
            }
            if os.trailing_ws {
                bodies.push(b'\n');
            }
            let mut header = header.into_bytes();
            if let Some(last) = header.last_mut() {
                *last = b'\n';
            }
            let first = header.len();
            let mut plain = header;
            plain.extend_from_slice(&bodies);
            let (data, fname) = apply_filter(os.filter, &plain);
            let mut d: Dict = vec![
                ("Type".into(), Val::name("ObjStm")),
                ("N".into(), Val::Int((members.len() + shift) as i64)),
                ("First".into(), Val::Int(first as i64)),
            ];
            if let Some(f) = fname {
                d.push(("Filter".into(), filter_val(f)));
            }
            let off = out.len() - base;
            out.extend_from_slice(format!("{} 0 obj\n", os.num).as_bytes());
            // an object stream is encrypted as a whole; the strings of its members are not
            let data = match &spec.encrypt {
                Some(e) => e.crypt_data(&data, os.num, 0),
                None => data,
            };
            write_stream_obj(&mut out, &d, &data, None);
            out.extend_from_slice(b"\nendobj\n");
            entries.insert(os.num, Entry::InUse { off, gen: 0 });
        }
        // trailer entries
        let mut tr: Dict = vec![("Size".into(), Val::Int(rev.size as i64)), ("Root".into(), rev.root.clone())];
        if let Some(p) = prev {
            tr.push(("Prev".into(), Val::Int(p as i64)));
        }
        for (k, v) in &rev.trailer {
            tr.push((k.clone(), v.clone()));
        }
        let xref_off = out.len() - base;
        let subst = |v: &Val| -> Val {
            match v {
                Val::Raw(t) if t == "@xref" => Val::Int(xref_off as i64),
                Val::Raw(t) if t.starts_with("@xref:") => {
                    let k: usize = t[6..].parse().unwrap_or(0);
                    Val::Raw(format!("{:010}", section_offsets.get(k).cloned().unwrap_or(0)))
                }
                other => other.clone(),
            }
        };
        let apply_overrides = |d: &mut Dict| {
            for (k, v) in &rev.overrides {
                let v = subst(v);
                if let Some(slot) = d.iter_mut().find(|(kk, _)| kk == k) {
                    slot.1 = v;
                } else {
                    d.push((k.clone(), v));
                }
            }
        };
        match &rev.style {
            XrefStyle::Classic { cuts } => {
                assert!(
                    !entries.values().any(|e| matches!(e, Entry::Compressed { .. })),
                    "classic table cannot describe compressed objects"
                );
                let nums: Vec<u32> = entries.keys().cloned().collect();
                out.extend_from_slice(b"xref\n");
                for (first, count) in runs(&nums, cuts) {
                    out.extend_from_slice(format!("{} {}\n", first, count).as_bytes());
                    for n in first..first + count {
                        match entries[&n] {
                            Entry::Free { next, gen } => out.extend_from_slice(format!("{:010} {:05} f \n", next, gen).as_bytes()),
                            Entry::InUse { off, gen } => out.extend_from_slice(format!("{:010} {:05} n \n", off, gen).as_bytes()),
                            Entry::Compressed { .. } => unreachable!(),
                        }
                    }
                }
                out.extend_from_slice(b"trailer\n");
                apply_overrides(&mut tr);
                write_dict(&mut out, &tr);
                out.push(b'\n');
            }
            XrefStyle::Stream { num, w, cuts, filter, predictor } => {
                entries.insert(*num, Entry::InUse { off: xref_off, gen: 0 });
                let nums: Vec<u32> = entries.keys().cloned().collect();
                // now and then (by the stream's own number: no random draw) an /Index pair with count 0
                // in front of the first run, between the runs, or in front of the last one
                let mut rs = runs(&nums, cuts);
                match if EMPTY_INDEX_PAIRS.load(std::sync::atomic::Ordering::Relaxed) { num % 4 } else { 0 } {
                    1 => rs.insert(0, (rs[0].0, 0)),
                    2 => rs.insert(rs.len() - 1, (rs[rs.len() - 1].0, 0)),
                    3 => rs.insert(1, (rs[0].0 + rs[0].1, 0)),
                    _ => {}
                }
                let mut data = vec![];
                for n in &nums {
                    let (t, a, b): (u64, u64, u64) = match entries[n] {
                        Entry::Free { next, gen } => (0, next as u64, gen as u64),
                        Entry::InUse { off, gen } => (1, off as u64, gen as u64),
                        Entry::Compressed { stm, idx } => (2, stm as u64, idx as u64),
                    };
                    if w[0] == 0 {
                        assert_eq!(t, 1, "type width 0 needs an all-in-use section");
                    }
                    for (val, width) in [(t, w[0]), (a, w[1]), (b, w[2])] {
                        assert!(width >= 8 || val < (1u64 << (8 * width as u32)) || (width == 0 && val == 0) || (width == 0), "field does not fit");
                        if width == 0 {
                            continue;
                        }
                        data.extend_from_slice(&val.to_be_bytes()[8 - width..]);
                    }
                }
                let row = w[0] + w[1] + w[2];
                let use_predictor = *predictor != 0 && matches!(filter, StmFilter::FlateStored | StmFilter::Lzw | StmFilter::HexFlate) && row > 0;
                if use_predictor {
                    data = predict(&data, row, *predictor, geometry(*num, row, *predictor).3);
                }
                let (enc, fname) = apply_filter(*filter, &data);
                let mut d: Dict = vec![("Type".into(), Val::name("XRef"))];
                d.extend(tr.iter().cloned());
                d.push(("W".into(), Val::ints(&[w[0] as i64, w[1] as i64, w[2] as i64])));
                let default_index = rs.len() == 1 && rs[0].0 == 0 && rs[0].1 == rev.size;
                if !default_index {
                    d.push(("Index".into(), Val::Arr(rs.iter().flat_map(|&(f, c)| [Val::Int(f as i64), Val::Int(c as i64)]).collect())));
                }
                if let Some(f) = fname {
                    d.push(("Filter".into(), filter_val(f)));
                }
                if use_predictor {
                    let (colors, bpc, columns, _) = geometry(*num, row, *predictor);
                    let mut parms = vec![("Predictor", Val::Int(*predictor as i64)), ("Columns", Val::Int(columns))];
                    if colors != 1 {
                        parms.push(("Colors", Val::Int(colors)));
                    }
                    if bpc != 8 {
                        parms.push(("BitsPerComponent", Val::Int(bpc)));
                    }
                    let parms = Val::dict(parms);
                    d.push(("DecodeParms".into(), if *filter == StmFilter::HexFlate { Val::Arr(vec![Val::Null, parms]) } else { parms }));
                }
                apply_overrides(&mut d);
                out.extend_from_slice(format!("{} 0 obj\n", num).as_bytes());
                write_stream_obj(&mut out, &d, &enc, None);
                out.extend_from_slice(b"\nendobj\n");
            }
        }
        out.extend_from_slice(format!("startxref\n{}\n%%EOF\n", xref_off).as_bytes());
        prev = Some(xref_off);
        xref_offs.push(xref_off);
        rev_end.push(out.len());
    }
    (Written { bytes: out, rev_end }, xref_offs)
}

// ---------------------------------------------------------------------------------------------
// expected state (the model) after k revisions, from the specification's rule "newest section wins"

#[derive(Clone, Debug, PartialEq)]
pub enum Latest {
    Direct { gen: u16, body: Body },
    Compressed(Val),
    Free,
}

/// object number -> latest mention among the first `k` revisions; numbers never mentioned are absent
pub fn model_after(spec: &DocSpec, k: usize) -> BTreeMap<u32, Latest> {
    let mut m = BTreeMap::new();
    for rev in &spec.revisions[..k] {
        for (&n, s) in &rev.slots {
            let l = match s {
                Slot::Direct { gen, body } => Latest::Direct { gen: *gen, body: body.clone() },
                Slot::Compressed { val, .. } => Latest::Compressed(val.clone()),
                Slot::RawCompressed { .. } => Latest::Compressed(Val::Null),
                Slot::Free { .. } => Latest::Free,
            };
            m.insert(n, l);
        }
    }
    m
}

// ---------------------------------------------------------------------------------------------
// minimal strict reader: re-derives, from the bytes alone, (object number -> offset/compressed/free)
// by the specification's rule and checks every in-use offset lands on "<n> <g> obj" and every
// stream /Length on "endstream". A disagreement is a HARNESS error (exit 2), never an alarm.

fn skip_ws(b: &[u8], mut p: usize) -> usize {
    while p < b.len() && matches!(b[p], b' ' | b'\n' | b'\r' | b'\t' | 0 | 12) {
        p += 1;
    }
    p
}
fn read_uint(b: &[u8], p: usize) -> Option<(u64, usize)> {
    let p = skip_ws(b, p);
    let mut q = p;
    let mut v: u64 = 0;
    while q < b.len() && b[q].is_ascii_digit() {
        v = v.checked_mul(10)?.checked_add((b[q] - b'0') as u64)?;
        q += 1;
    }
    if q == p {
        None
    } else {
        Some((v, q))
    }
}
fn expect_kw<'a>(b: &'a [u8], p: usize, kw: &[u8]) -> Option<usize> {
    let p = skip_ws(b, p);
    if b.len() >= p + kw.len() && &b[p..p + kw.len()] == kw {
        Some(p + kw.len())
    } else {
        None
    }
}
fn find_last(b: &[u8], needle: &[u8]) -> Option<usize> {
    if b.len() < needle.len() {
        return None;
    }
    (0..=b.len() - needle.len()).rev().find(|&i| &b[i..i + needle.len()] == needle)
}
fn find_from(b: &[u8], from: usize, needle: &[u8]) -> Option<usize> {
    if b.len() < needle.len() || from > b.len() - needle.len() {
        return None;
    }
    (from..=b.len() - needle.len()).find(|&i| &b[i..i + needle.len()] == needle)
}

#[derive(Clone, Debug, PartialEq)]
pub enum StrictEntry {
    Free,
    InUse { off: usize, gen: u16 },
    Compressed { stm: u32, idx: usize },
}

/// Returns the merged cross-reference view of `bytes` (a prefix of a written document that ends
/// after some revision), or a description of what is inconsistent.
pub fn strict_read(bytes: &[u8], spec: &DocSpec, k: usize) -> Result<BTreeMap<u32, StrictEntry>, String> {
    let base = find_from(bytes, 0, b"%PDF-").ok_or("no header")?;
    if base != spec.junk.len() {
        return Err(format!("header at {} but junk prefix is {}", base, spec.junk.len()));
    }
    let sx = find_last(bytes, b"startxref").ok_or("no startxref")?;
    let (mut off, _) = read_uint(bytes, sx + 9).ok_or("bad startxref")?;
    let mut view: BTreeMap<u32, StrictEntry> = BTreeMap::new();
    let mut seen = 0usize;
    loop {
        seen += 1;
        if seen > k {
            return Err("more sections than revisions".into());
        }
        // The written spec is the authority on *which* section style was used; the reader only
        // trusts bytes for offsets and entries.
        let rev = &spec.revisions[k - seen];
        let p = base + off as usize;
        let mut section: BTreeMap<u32, StrictEntry> = BTreeMap::new();
        let prev: Option<u64>;
        match &rev.style {
            XrefStyle::Classic { .. } => {
                let mut q = expect_kw(bytes, p, b"xref").ok_or("expected xref")?;
                loop {
                    if let Some(t) = expect_kw(bytes, q, b"trailer") {
                        q = t;
                        break;
                    }
                    let (first, q1) = read_uint(bytes, q).ok_or("subsection first")?;
                    let (count, q2) = read_uint(bytes, q1).ok_or("subsection count")?;
                    q = skip_ws(bytes, q2);
                    for i in 0..count {
                        let line = bytes.get(q..q + 20).ok_or("short entry")?;
                        let a: u64 = std::str::from_utf8(&line[0..10]).ok().and_then(|s| s.parse().ok()).ok_or("entry field 1")?;
                        let g: u64 = std::str::from_utf8(&line[11..16]).ok().and_then(|s| s.parse().ok()).ok_or("entry field 2")?;
                        let e = match line[17] {
                            b'n' => StrictEntry::InUse { off: a as usize, gen: g as u16 },
                            b'f' => StrictEntry::Free,
                            _ => return Err("entry kind".into()),
                        };
                        section.insert((first + i) as u32, e);
                        q += 20;
                    }
                }
                let tail = &bytes[q..];
                let limit = find_from(tail, 0, b"startxref").ok_or("no startxref after trailer")?;
                prev = find_from(&tail[..limit], 0, b"/Prev ").and_then(|i| read_uint(tail, i + 6)).map(|x| x.0);
            }
            XrefStyle::Stream { num, w, filter, predictor, .. } => {
                let (n, q1) = read_uint(bytes, p).ok_or("xref stream obj number")?;
                if n as u32 != *num {
                    return Err(format!("xref stream object number {} != {}", n, num));
                }
                let (_, q2) = read_uint(bytes, q1).ok_or("xref stream gen")?;
                let q3 = expect_kw(bytes, q2, b"obj").ok_or("xref stream obj kw")?;
                let sk = find_from(bytes, q3, b"\nstream\n").ok_or("xref stream keyword")?;
                let head = &bytes[q3..sk];
                let geti = |key: &[u8]| -> Option<u64> { find_from(head, 0, key).and_then(|i| read_uint(head, i + key.len())).map(|x| x.0) };
                let len = geti(b"/Length ").ok_or("xref stream length")? as usize;
                let raw = bytes.get(sk + 8..sk + 8 + len).ok_or("xref stream data")?;
                if expect_kw(bytes, sk + 8 + len, b"endstream").is_none() {
                    return Err("xref stream /Length does not end at endstream".into());
                }
                let data = match filter {
                    StmFilter::None => raw.to_vec(),
                    StmFilter::AsciiHex => {
                        let mut t = std::str::from_utf8(raw).map_err(|_| "hex")?.replace(['\n', '>'], "");
                        if t.len() % 2 == 1 {
                            t.push('0');
                        }
                        unhex(&t).ok_or("hex")?
                    }
                    StmFilter::FlateStored => unstored(raw).ok_or("stored zlib")?,
                    StmFilter::Ascii85 => unascii85(raw).ok_or("ascii85")?,
                    StmFilter::HexFlate => {
                        let mut t = std::str::from_utf8(raw).map_err(|_| "hex")?.replace(['\n', '>'], "");
                        if t.len() % 2 == 1 {
                            t.push('0');
                        }
                        unstored(&unhex(&t).ok_or("hex")?).ok_or("stored zlib")?
                    }
                    StmFilter::Lzw => {
                        let mut o = vec![];
                        weezl::decode::Decoder::with_tiff_size_switch(weezl::BitOrder::Msb, 8).into_stream(&mut o).decode_all(raw).status.map_err(|_| "lzw")?;
                        o
                    }
                };
                let row = w[0] + w[1] + w[2];
                let data = if *predictor != 0 && matches!(filter, StmFilter::FlateStored | StmFilter::Lzw | StmFilter::HexFlate) && row > 0 { unpredict(&data, row, *predictor, geometry(*num, row, *predictor).3).ok_or("predictor")? } else { data };
                let size = geti(b"/Size ").ok_or("size")?;
                let index: Vec<u64> = match find_from(head, 0, b"/Index [") {
                    Some(i) => {
                        let mut v = vec![];
                        let mut q = i + 8;
                        while let Some((x, nq)) = read_uint(head, q) {
                            v.push(x);
                            q = nq;
                        }
                        v
                    }
                    None => vec![0, size],
                };
                let mut dp = 0usize;
                let mut rd = |width: usize, default: u64| -> Option<u64> {
                    if width == 0 {
                        return Some(default);
                    }
                    let s = data.get(dp..dp + width)?;
                    dp += width;
                    Some(s.iter().fold(0u64, |a, &b| (a << 8) | b as u64))
                };
                for pair in index.chunks(2) {
                    for i in 0..pair[1] {
                        let t = rd(w[0], 1).ok_or("xref data short")?;
                        let a = rd(w[1], 0).ok_or("xref data short")?;
                        let b = rd(w[2], 0).ok_or("xref data short")?;
                        let e = match t {
                            0 => StrictEntry::Free,
                            1 => StrictEntry::InUse { off: a as usize, gen: b as u16 },
                            2 => StrictEntry::Compressed { stm: a as u32, idx: b as usize },
                            _ => return Err("xref type".into()),
                        };
                        section.insert((pair[0] + i) as u32, e);
                    }
                }
                prev = geti(b"/Prev ");
            }
        }
        for (n, e) in section {
            view.entry(n).or_insert(e); // newest first: keep what is already there
        }
        match prev {
            Some(pv) => off = pv,
            None => break,
        }
    }
    if seen != k {
        return Err(format!("{} sections reachable, {} revisions written", seen, k));
    }
    // offsets land on object headers; stream lengths are accurate
    for (&n, e) in &view {
        if let StrictEntry::InUse { off, gen } = e {
            let p = base + off;
            let (rn, q1) = read_uint(bytes, p).ok_or(format!("object {}: no number at offset", n))?;
            let (rg, q2) = read_uint(bytes, q1).ok_or("object gen")?;
            if rn as u32 != n || rg as u16 != *gen || expect_kw(bytes, q2, b"obj").is_none() {
                return Err(format!("object {} {}: offset {} lands on {} {}", n, gen, off, rn, rg));
            }
        }
    }
    Ok(view)
}

fn unstored(z: &[u8]) -> Option<Vec<u8>> {
    let mut p = 2;
    let mut out = vec![];
    loop {
        let fin = *z.get(p)?;
        let len = u16::from_le_bytes([*z.get(p + 1)?, *z.get(p + 2)?]) as usize;
        p += 5;
        out.extend_from_slice(z.get(p..p + len)?);
        p += len;
        if fin & 1 == 1 {
            break;
        }
    }
    Some(out)
}

/// Cross-check writer output against the model; Err = harness bug.
pub fn self_check(spec: &DocSpec, w: &Written) -> Result<(), String> {
    for k in 1..=spec.revisions.len() {
        let bytes = &w.bytes[..w.rev_end[k - 1]];
        let view = strict_read(bytes, spec, k)?;
        let model = model_after(spec, k);
        for (n, l) in &model {
            let e = view.get(n);
            let ok = match (l, e) {
                (Latest::Direct { gen, .. }, Some(StrictEntry::InUse { gen: g2, .. })) => gen == g2,
                (Latest::Compressed(_), Some(StrictEntry::Compressed { .. })) => true,
                (Latest::Free, Some(StrictEntry::Free)) => true,
                _ => false,
            };
            if !ok {
                return Err(format!("revision {}: object {} model {:?} but bytes say {:?}", k, n, l, e));
            }
        }
    }
    Ok(())
}

// ---------------------------------------------------------------------------------------------
// JSON for replay files

fn body_to_json(b: &Body) -> J {
    match b {
        Body::Plain(v) => json!({ "plain": v.to_json() }),
        Body::Stream { dict, data, len_ref } => json!({ "stream": { "dict": dict_to_json(dict), "data": hex(data), "len_ref": len_ref } }),
    }
}
fn body_from_json(j: &J) -> Option<Body> {
    if let Some(v) = j.get("plain") {
        return Some(Body::Plain(Val::from_json(v)?));
    }
    let s = j.get("stream")?;
    Some(Body::Stream {
        dict: dict_from_json(s.get("dict")?)?,
        data: unhex(s.get("data")?.as_str()?)?,
        len_ref: s.get("len_ref").and_then(|x| x.as_u64()).map(|x| x as u32),
    })
}
fn filter_name(f: StmFilter) -> &'static str {
    match f {
        StmFilter::None => "none",
        StmFilter::FlateStored => "flate_stored",
        StmFilter::AsciiHex => "ascii_hex",
        StmFilter::Lzw => "lzw",
        StmFilter::HexFlate => "hex_flate",
        StmFilter::Ascii85 => "ascii85",
    }
}
fn filter_from(s: &str) -> Option<StmFilter> {
    Some(match s {
        "none" => StmFilter::None,
        "flate_stored" => StmFilter::FlateStored,
        "ascii_hex" => StmFilter::AsciiHex,
        "lzw" => StmFilter::Lzw,
        "hex_flate" => StmFilter::HexFlate,
        "ascii85" => StmFilter::Ascii85,
        _ => return None,
    })
}

impl DocSpec {
    pub fn to_json(&self) -> J {
        let revs: Vec<J> = self
            .revisions
            .iter()
            .map(|r| {
                let slots: Vec<J> = r
                    .slots
                    .iter()
                    .map(|(n, s)| match s {
                        Slot::Direct { gen, body } => json!({ "num": n, "direct": { "gen": gen, "body": body_to_json(body) } }),
                        Slot::Compressed { stm, val } => json!({ "num": n, "compressed": { "stm": stm, "val": val.to_json() } }),
                        Slot::Free { gen } => json!({ "num": n, "free": { "gen": gen } }),
                        Slot::RawCompressed { stm, idx } => json!({ "num": n, "raw_compressed": { "stm": stm, "idx": idx } }),
                    })
                    .collect();
                let objstms: Vec<J> = r.objstms.iter().map(|o| json!({ "num": o.num, "filter": filter_name(o.filter), "trailing_ws": o.trailing_ws, "stale_first": o.stale_first })).collect();
                let style = match &r.style {
                    XrefStyle::Classic { cuts } => json!({ "classic": { "cuts": cuts } }),
                    XrefStyle::Stream { num, w, cuts, filter, predictor } => json!({ "stream": { "num": num, "w": w, "cuts": cuts, "filter": filter_name(*filter), "predictor": predictor } }),
                };
                json!({ "slots": slots, "objstms": objstms, "style": style, "size": r.size, "root": r.root.to_json(), "trailer": dict_to_json(&r.trailer), "overrides": dict_to_json(&r.overrides) })
            })
            .collect();
        json!({ "junk": hex(&self.junk), "revisions": revs, "encrypt": self.encrypt.as_ref().map(|e| e.to_json()) })
    }
    pub fn from_json(j: &J) -> Option<DocSpec> {
        let mut revisions = vec![];
        for r in j.get("revisions")?.as_array()? {
            let mut slots = BTreeMap::new();
            for s in r.get("slots")?.as_array()? {
                let n = s.get("num")?.as_u64()? as u32;
                let slot = if let Some(d) = s.get("direct") {
                    Slot::Direct { gen: d.get("gen")?.as_u64()? as u16, body: body_from_json(d.get("body")?)? }
                } else if let Some(c) = s.get("compressed") {
                    Slot::Compressed { stm: c.get("stm")?.as_u64()? as u32, val: Val::from_json(c.get("val")?)? }
                } else if let Some(c) = s.get("raw_compressed") {
                    Slot::RawCompressed { stm: c.get("stm")?.as_u64()? as u32, idx: c.get("idx")?.as_u64()? as u32 }
                } else {
                    Slot::Free { gen: s.get("free")?.get("gen")?.as_u64()? as u16 }
                };
                slots.insert(n, slot);
            }
            let mut objstms = vec![];
            for o in r.get("objstms")?.as_array()? {
                objstms.push(ObjStmSpec { num: o.get("num")?.as_u64()? as u32, filter: filter_from(o.get("filter")?.as_str()?)?, trailing_ws: o.get("trailing_ws")?.as_bool()?, stale_first: o.get("stale_first").and_then(|x| x.as_bool()).unwrap_or(false) });
            }
            let st = r.get("style")?;
            let cuts = |x: &J| -> Option<Vec<u32>> { x.get("cuts")?.as_array()?.iter().map(|c| c.as_u64().map(|c| c as u32)).collect() };
            let style = if let Some(c) = st.get("classic") {
                XrefStyle::Classic { cuts: cuts(c)? }
            } else {
                let s = st.get("stream")?;
                let w = s.get("w")?.as_array()?;
                XrefStyle::Stream {
                    num: s.get("num")?.as_u64()? as u32,
                    w: [w.get(0)?.as_u64()? as usize, w.get(1)?.as_u64()? as usize, w.get(2)?.as_u64()? as usize],
                    cuts: cuts(s)?,
                    filter: filter_from(s.get("filter")?.as_str()?)?,
                    predictor: s.get("predictor").and_then(|x| x.as_u64()).unwrap_or(0) as u8,
                }
            };
            revisions.push(Revision {
                slots,
                objstms,
                style,
                size: r.get("size")?.as_u64()? as u32,
                root: Val::from_json(r.get("root")?)?,
                trailer: dict_from_json(r.get("trailer")?)?,
                overrides: r.get("overrides").and_then(dict_from_json).unwrap_or_default(),
            });
        }
        Some(DocSpec { junk: unhex(j.get("junk")?.as_str()?)?, revisions, encrypt: j.get("encrypt").and_then(crate::crypt_ref::EncSpec::from_json) })
    }
}

// ---------------------------------------------------------------------------------------------
// convenience builder for single-revision documents used by the typed families

pub struct Builder {
    pub objs: BTreeMap<u32, Body>,
    next: u32,
}
impl Builder {
    pub fn new() -> Builder {
        Builder { objs: BTreeMap::new(), next: 1 }
    }
    pub fn reserve(&mut self) -> u32 {
        let n = self.next;
        self.next += 1;
        n
    }
    pub fn put(&mut self, n: u32, v: Val) {
        self.objs.insert(n, Body::Plain(v));
    }
    pub fn put_stream(&mut self, n: u32, dict: Dict, data: Vec<u8>) {
        self.objs.insert(n, Body::Stream { dict, data, len_ref: None });
    }
    pub fn add(&mut self, v: Val) -> u32 {
        let n = self.reserve();
        self.put(n, v);
        n
    }
    pub fn add_stream(&mut self, dict: Dict, data: Vec<u8>) -> u32 {
        let n = self.reserve();
        self.put_stream(n, dict, data);
        n
    }
    pub fn next_num(&self) -> u32 {
        self.next
    }
    /// Lay the objects out as one revision. `layout` decides xref style and which plain objects
    /// (never streams, never the catalog when `keep_root_direct`) go into an object stream.
    pub fn finish(self, root: u32, layout: &Layout, rng: &mut Rng) -> DocSpec {
        let mut next = self.next;
        let mut slots = BTreeMap::new();
        let mut objstms = vec![];
        let use_stream_xref = layout.xref_stream;
        let mut stm_num = None;
        if use_stream_xref && layout.compress {
            let n = next;
            next += 1;
            stm_num = Some(n);
            objstms.push(ObjStmSpec { num: n, filter: layout.objstm_filter, trailing_ws: layout.trailing_ws, stale_first: false });
        }
        let mut any_compressed = false;
        for (n, body) in self.objs {
            let compress = match (&body, stm_num) {
                (Body::Plain(_), Some(_)) if n == root => layout.compress_root,
                (Body::Plain(_), Some(_)) => !layout.keep_direct.contains(&n) && rng.chance(3, 4),
                _ => false,
            };
            if compress {
                if let Body::Plain(v) = body {
                    any_compressed = true;
                    slots.insert(n, Slot::Compressed { stm: stm_num.unwrap(), val: v });
                }
            } else {
                slots.insert(n, Slot::Direct { gen: 0, body });
            }
        }
        if !any_compressed {
            objstms.clear();
        }
        let style = if use_stream_xref {
            let num = next;
            next += 1;
            XrefStyle::Stream { num, w: [1, 3, 2], cuts: vec![], filter: layout.xref_filter, predictor: 0 }
        } else {
            XrefStyle::Classic { cuts: vec![] }
        };
        let mut trailer = layout.trailer.clone();
        let encrypt = layout.encrypt.map(|(r, key_len)| {
            let id0 = b"0123456789abcdef".to_vec();
            let e = crate::crypt_ref::EncSpec { r, key_len, user_pw: vec![], owner_pw: b"owner".to_vec(), p: -4, id0: id0.clone(), enc_obj: next };
            slots.insert(next, Slot::Direct { gen: 0, body: Body::Plain(e.dict()) });
            trailer.retain(|(k, _)| k != "Encrypt" && k != "ID");
            trailer.push(("Encrypt".into(), Val::r(next)));
            trailer.push(("ID".into(), Val::Arr(vec![Val::Str(id0.clone()), Val::Str(id0)])));
            next += 1;
            e
        });
        DocSpec { junk: layout.junk.clone(), revisions: vec![Revision { slots, objstms, style, size: next, root: Val::r(root), trailer, overrides: vec![] }], encrypt }
    }
}

#[derive(Clone, Debug)]
pub struct Layout {
    pub xref_stream: bool,
    pub compress: bool,
    pub objstm_filter: StmFilter,
    pub xref_filter: StmFilter,
    pub trailing_ws: bool,
    pub junk: Vec<u8>,
    pub keep_direct: Vec<u32>,
    pub trailer: Dict,
    /// write an encrypted document (standard security handler revision, key bytes); the user password
    /// is empty, /ID is added to the trailer
    pub encrypt: Option<(u8, usize)>,
    /// store the catalog in the object stream as well (never drawn at random: set by the callers that want it)
    pub compress_root: bool,
}
impl Layout {
    pub fn classic() -> Layout {
        Layout { xref_stream: false, compress: false, objstm_filter: StmFilter::None, xref_filter: StmFilter::None, trailing_ws: true, junk: vec![], keep_direct: vec![], trailer: vec![], encrypt: None, compress_root: false }
    }
    pub fn random(rng: &mut Rng) -> Layout {
        let filters = [StmFilter::None, StmFilter::FlateStored, StmFilter::AsciiHex];
        let xref_stream = rng.coin();
        Layout {
            xref_stream,
            compress: xref_stream && rng.chance(2, 3),
            objstm_filter: *rng.pick(&filters),
            xref_filter: *rng.pick(&filters),
            trailing_ws: rng.coin(),
            junk: vec![],
            keep_direct: vec![],
            trailer: vec![],
            encrypt: None,
            compress_root: false,
        }
    }
}
