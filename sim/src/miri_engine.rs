//! Driver for the second C13 engine (src/bin/miri_c13.rs under `cargo +nightly miri run`).
//! One Miri seed = one exactly repeatable execution; `-Zmiri-many-seeds` explores a range.

use crate::framework::Tier;
use serde_json::{json, Value as J};
use std::process::Command;
use std::time::Instant;

pub const FLAGS: &str = "-Zmiri-preemption-rate=0.1 -Zmiri-ignore-leaks -Zmiri-tree-borrows";

fn classify(out: &str) -> String {
    if out.contains("deadlock") {
        "miri: the evaluated program deadlocked".into()
    } else if out.contains("Data race") || out.contains("data race") {
        "miri: data race".into()
    } else if out.contains("Undefined Behavior") {
        "miri: undefined behaviour".into()
    } else if out.contains("panicked") {
        // the scenario's own assertions fail with "thread N get(id)" / "stream data" etc. on the line after
        let lines: Vec<&str> = out.lines().collect();
        let i = lines.iter().position(|l| l.contains("panicked")).unwrap_or(0);
        let what = lines.get(i + 1).map(|l| l.trim()).unwrap_or("");
        let site = lines[i].split(" panicked at ").nth(1).unwrap_or("").trim_end_matches(':');
        let site = crate::framework::shorten_path(site);
        let site = site.rsplit_once(':').map(|x| x.0).unwrap_or(&site).to_string();
        format!("miri: panic at {}: {}", site, what.chars().map(|c| if c.is_ascii_digit() { '#' } else { c }).take(80).collect::<String>())
    } else {
        "miri: run failed".into()
    }
}

fn miri(inst: &str, flags: &str, scenario: &str, variant: u64) -> std::io::Result<(bool, String)> {
    let out = Command::new("cargo")
        .args(["+nightly", "miri", "run", "--offline", "--bin", "miri_c13", "--", scenario, &variant.to_string()])
        .current_dir(inst)
        .env("MIRIFLAGS", flags)
        .env("CARGO_TARGET_DIR", format!("{}/target/miri", inst))
        .output()?;
    let text = format!("{}{}", String::from_utf8_lossy(&out.stdout), String::from_utf8_lossy(&out.stderr));
    Ok((out.status.success(), text))
}

pub struct MiriResult {
    pub evidence: J,
    /// (signature, detail, replay case)
    pub violations: Vec<(String, String, J)>,
    pub harness_errors: Vec<String>,
}

pub fn run(tier: Tier, inst: &str, verif_seed: u64) -> MiriResult {
    let t0 = Instant::now();
    let (scenarios, n): (Vec<(&str, u64)>, u64) = match tier {
        Tier::Quick => (vec![("shared_same_key", 0)], 16),
        Tier::Thorough => (
            vec![("shared_same_key", 0), ("shared_same_key", 1), ("objstm_members", 0), ("objstm_members", 1), ("lazy", 0), ("image_stream", 0), ("image_stream", 1)],
            128,
        ),
    };
    let base = (verif_seed.saturating_sub(1)) * 4096;
    let mut res = MiriResult { evidence: J::Null, violations: vec![], harness_errors: vec![] };
    let mut executed = 0u64;
    let mut per = vec![];
    for (sc, var) in &scenarios {
        let flags = format!("-Zmiri-many-seeds={}..{} {}", base, base + n, FLAGS);
        match miri(inst, &flags, sc, *var) {
            Err(e) => res.harness_errors.push(format!("cannot run cargo +nightly miri: {}", e)),
            Ok((ok, text)) => {
                let oks = text.matches(&format!("ok {} {}", sc, var)).count() as u64;
                executed += oks;
                per.push(json!({"scenario": sc, "variant": var, "seeds": format!("{}..{}", base, base + n), "completed_ok": oks}));
                if !ok {
                    match text.lines().find_map(|l| l.strip_prefix("FAILING SEED: ")).and_then(|s| s.trim().parse::<u64>().ok()) {
                        Some(seed) => {
                            let sig = classify(&text);
                            let detail: String = text.lines().filter(|l| l.starts_with("error") || l.contains("panicked")).take(3).collect::<Vec<_>>().join(" | ");
                            res.violations.push((sig, detail, json!({"property": "C13", "engine": "miri", "scenario": sc, "variant": var, "miri_seed": seed, "miriflags": FLAGS})));
                        }
                        None => res.harness_errors.push(format!("miri run of {} {} failed without a failing seed:\n{}", sc, var, text.lines().rev().take(15).collect::<Vec<_>>().join("\n"))),
                    }
                } else if oks < n {
                    res.harness_errors.push(format!("miri run of {} {}: only {} of {} seeds reported ok", sc, var, oks, n));
                }
            }
        }
    }
    res.evidence = json!({"engine": "cargo +nightly miri run (src/bin/miri_c13.rs), no stubs", "flags": FLAGS, "executions": executed, "scenarios": per, "wall_s": t0.elapsed().as_secs_f64(),
        "note": "Stacked Borrows reports undefined behaviour inside the istring dependency (SmallBytes heap pointer retag); Tree Borrows accepts it; aliasing models of dependencies are outside C13's statement, so the engine runs with -Zmiri-tree-borrows. Leak checking is off because a page and its loaded annotations form an Arc cycle."});
    res
}

/// replay of a recorded Miri failure: the same seed must fail with the same class
pub fn replay(inst: &str, case: &J) -> Option<(String, String)> {
    let sc = case.get("scenario")?.as_str()?;
    let var = case.get("variant")?.as_u64()?;
    let seed = case.get("miri_seed")?.as_u64()?;
    let flags = format!("-Zmiri-seed={} {}", seed, case.get("miriflags").and_then(|x| x.as_str()).unwrap_or(FLAGS));
    match miri(inst, &flags, sc, var) {
        Ok((false, text)) => Some((classify(&text), text.lines().filter(|l| l.starts_with("error")).take(2).collect::<Vec<_>>().join(" | "))),
        _ => None,
    }
}
