//! Second engine for C13, no stubs at all: the same kind of scenario with plain std threads, meant
//! to run under `cargo +nightly miri run` with `-Zmiri-many-seeds=a..b -Zmiri-preemption-rate=p`.
//! Miri is a deterministic interpreter with a seeded scheduler (one seed = one exactly repeatable
//! execution) that preempts at basic-block granularity, executes the real SyncCache condvar path, the
//! real OnceCell and Mutex and the unsafe down-casts, and reports data races, undefined behaviour
//! and deadlocks itself. Acyclic documents only (the known finding K1 is a deadlock on cyclic ones).
//!
//! usage: miri_c13 <scenario> [variant]      scenario in {shared_same_key, objstm_members, lazy, image_stream}
//! Also runs natively (cargo run) as a plain stress test.

#[path = "../docgen.rs"]
#[allow(dead_code)]
mod docgen;
#[path = "../crypt_ref.rs"]
#[allow(dead_code)]
mod crypt_ref;
#[path = "../rng.rs"]
#[allow(dead_code)]
mod rng;

use docgen::*;
use pdf::file::FileOptions;
use pdf::object::*;
use pdf::primitive::Primitive;

fn rect(a: i64, b: i64, c: i64, d: i64) -> Val {
    Val::ints(&[a, b, c, d])
}

/// catalog 1, pages 2, page 3 (annots 5, font 6, image 7, contents 4), page 8
fn document(compress: bool) -> Vec<u8> {
    let mut b = Builder::new();
    let catalog = b.reserve();
    let pages = b.reserve();
    let page = b.reserve();
    let contents = b.add_stream(vec![], b"BT /F1 12 Tf (x) Tj ET".to_vec());
    let annot = b.add(Val::dict(vec![("Type", Val::name("Annot")), ("Subtype", Val::name("Text")), ("Rect", rect(0, 0, 5, 5)), ("P", Val::r(page))]));
    let font = b.add(Val::dict(vec![
        ("Type", Val::name("Font")),
        ("Subtype", Val::name("Type1")),
        ("BaseFont", Val::name("Helvetica")),
        ("FirstChar", Val::Int(65)),
        ("LastChar", Val::Int(66)),
        ("Widths", Val::ints(&[500, 600])),
    ]));
    let image = b.add_stream(
        vec![
            ("Type".into(), Val::name("XObject")),
            ("Subtype".into(), Val::name("Image")),
            ("Width".into(), Val::Int(2)),
            ("Height".into(), Val::Int(1)),
            ("ColorSpace".into(), Val::name("DeviceGray")),
            ("BitsPerComponent".into(), Val::Int(8)),
            ("Filter".into(), Val::Arr(vec![Val::name("ASCIIHexDecode"), Val::name("FlateDecode")])),
        ],
        ascii_hex(&zlib_stored(&[9, 8])),
    );
    let page2 = b.add(Val::dict(vec![("Type", Val::name("Page")), ("Parent", Val::r(pages))]));
    b.put(
        page,
        Val::dict(vec![
            ("Type", Val::name("Page")),
            ("Parent", Val::r(pages)),
            ("Contents", Val::r(contents)),
            ("Annots", Val::Arr(vec![Val::r(annot)])),
            ("Resources", Val::dict(vec![("Font", Val::dict(vec![("F1", Val::r(font))])), ("XObject", Val::dict(vec![("Im", Val::r(image))]))])),
        ]),
    );
    b.put(pages, Val::dict(vec![("Type", Val::name("Pages")), ("Kids", Val::Arr(vec![Val::r(page), Val::r(page2)])), ("Count", Val::Int(2)), ("MediaBox", rect(0, 0, 10, 10)), ("Resources", Val::dict(vec![]))]));
    b.put(catalog, Val::dict(vec![("Type", Val::name("Catalog")), ("Pages", Val::r(pages))]));
    let mut layout = Layout::classic();
    if compress {
        layout.xref_stream = true;
        layout.compress = true;
    }
    layout.keep_direct = vec![catalog];
    // fixed PRNG value: under Miri nothing may depend on the environment
    let mut rng = rng::Rng::new(3);
    let spec = b.finish(catalog, &layout, &mut rng);
    write_doc(&spec).bytes
}

fn r<T>(id: u64) -> Ref<T> {
    Ref::new(PlainRef { id, gen: 0 })
}

fn node_text(res: &impl Resolve, id: u64) -> String {
    match res.get::<PagesNode>(r(id)) {
        Ok(n) => match *n {
            PagesNode::Tree(ref t) => format!("tree count={} kids={}", t.count, t.kids.len()),
            PagesNode::Leaf(ref p) => format!("leaf media={:?} rotate={} contents={}", p.media_box().ok(), p.rotate, p.contents.is_some()),
        },
        Err(e) => format!("Err({})", e),
    }
}
fn prim_text(res: &impl Resolve, id: u64) -> String {
    match res.resolve(PlainRef { id, gen: 0 }) {
        Ok(Primitive::Stream(s)) => format!("stream {:?}", s.info),
        Ok(p) => format!("{}", p),
        Err(e) => format!("Err({})", e),
    }
}

fn main() {
    let args: Vec<String> = std::env::args().collect();
    let scenario = args.get(1).map(|s| s.as_str()).unwrap_or("shared_same_key");
    let variant: u64 = args.get(2).and_then(|s| s.parse().ok()).unwrap_or(0);
    let compress = scenario == "objstm_members";
    let bytes = document(compress);
    // expected answers: sequential, uncached
    let reference = FileOptions::uncached().load(bytes.clone()).expect("load uncached");
    let file = FileOptions::cached().load(bytes).expect("load cached");
    match scenario {
        "shared_same_key" => {
            // one resolver shared by both threads; both load the same keys (and a parent/child pair)
            let ref_res = reference.resolver();
            let expect: Vec<String> = [3u64, 2, 3, 8].iter().map(|&id| node_text(&ref_res, id)).collect();
            let res = file.resolver();
            std::thread::scope(|s| {
                let hs: Vec<_> = (0..2)
                    .map(|t| {
                        let res = &res;
                        let expect = &expect;
                        s.spawn(move || {
                            let order: [usize; 4] = if (t + variant) % 2 == 0 { [0, 1, 2, 3] } else { [3, 2, 1, 0] };
                            for &k in &order {
                                let id = [3u64, 2, 3, 8][k];
                                assert_eq!(node_text(res, id), expect[k], "thread {} get({})", t, id);
                            }
                        })
                    })
                    .collect();
                for h in hs {
                    h.join().unwrap();
                }
            });
        }
        "objstm_members" => {
            // one resolver per thread; different members of one object stream (raw and typed)
            let ref_res = reference.resolver();
            let ids = [2u64, 3, 5, 6, 8];
            let expect: Vec<String> = ids.iter().map(|&id| prim_text(&ref_res, id)).collect();
            std::thread::scope(|s| {
                for t in 0..2u64 {
                    let file = &file;
                    let expect = &expect;
                    s.spawn(move || {
                        let res = file.resolver();
                        for k in 0..ids.len() {
                            let k = if (t + variant) % 2 == 0 { k } else { ids.len() - 1 - k };
                            assert_eq!(prim_text(&res, ids[k]), expect[k], "thread {} resolve({})", t, ids[k]);
                        }
                        assert!(res.get::<PagesNode>(r(3)).is_ok());
                    });
                }
            });
        }
        "lazy" => {
            // both threads hold the same cached page and load its lazy annotations and font
            let page = file.get_page(0).expect("page");
            let rp = reference.get_page(0).expect("page");
            let ref_res = reference.resolver();
            let exp_annots = rp.annotations.load(&ref_res).map(|a| a.len()).map_err(|e| e.to_string());
            let exp_font = rp.resources().ok().and_then(|r| r.fonts.values().next().map(|f| f.load(&ref_res).map(|f| format!("{:?}", f.subtype)).map_err(|e| e.to_string())));
            std::thread::scope(|s| {
                for _t in 0..2 {
                    let page = page.clone();
                    let file = &file;
                    let (ea, ef) = (exp_annots.clone(), exp_font.clone());
                    s.spawn(move || {
                        let res = file.resolver();
                        let a = page.annotations.load(&res).map(|a| a.len()).map_err(|e| e.to_string());
                        assert_eq!(a, ea);
                        let f = page.resources().ok().and_then(|r| r.fonts.values().next().map(|f| f.load(&res).map(|f| format!("{:?}", f.subtype)).map_err(|e| e.to_string())));
                        assert_eq!(f, ef);
                    });
                }
            });
        }
        "image_stream" => {
            // stream data and image data of one image stream from two threads
            let ref_res = reference.resolver();
            let exp_stream = ref_res.get::<Stream<()>>(r(7)).and_then(|s| (*s).data(&ref_res)).map(|d| d.to_vec()).map_err(|e| e.to_string());
            let exp_image = ref_res
                .get::<XObject>(r(7))
                .and_then(|x| match *x {
                    XObject::Image(ref i) => i.image_data(&ref_res),
                    _ => panic!("not an image"),
                })
                .map(|d| d.to_vec())
                .map_err(|e| e.to_string());
            std::thread::scope(|s| {
                let file = &file;
                let es = exp_stream.clone();
                s.spawn(move || {
                    let res = file.resolver();
                    for _ in 0..2 {
                        let got = res.get::<Stream<()>>(r(7)).and_then(|s| (*s).data(&res)).map(|d| d.to_vec()).map_err(|e| e.to_string());
                        assert_eq!(got, es, "stream data");
                    }
                });
                let ei = exp_image.clone();
                s.spawn(move || {
                    let res = file.resolver();
                    for _ in 0..2 {
                        let got = res
                            .get::<XObject>(r(7))
                            .and_then(|x| match *x {
                                XObject::Image(ref i) => i.image_data(&res),
                                _ => panic!("not an image"),
                            })
                            .map(|d| d.to_vec())
                            .map_err(|e| e.to_string());
                        assert_eq!(got, ei, "image data");
                    }
                });
            });
        }
        other => {
            eprintln!("unknown scenario {}", other);
            std::process::exit(2);
        }
    }
    println!("ok {} {}", scenario, variant);
}
