fn main() {}
