//! Conversions between the harness's value type and pdf's Primitive (used by the store model).

use crate::docgen::{Dict, Val};
use pdf::object::PlainRef;
use pdf::primitive::{Dictionary, PdfString, Primitive};

pub fn val_to_prim(v: &Val) -> Primitive {
    match v {
        Val::Null => Primitive::Null,
        Val::Bool(b) => Primitive::Boolean(*b),
        Val::Int(i) => Primitive::Integer(*i as i32),
        Val::Real(r) => Primitive::Number(*r as f32),
        Val::Name(n) => Primitive::name(n.as_str()),
        Val::Str(s) => Primitive::String(PdfString::new(istring::IBytes::from(&s[..]))),
        Val::Arr(a) => Primitive::Array(a.iter().map(val_to_prim).collect()),
        Val::Dict(d) => Primitive::Dictionary(dict_to_prim(d)),
        Val::Ref(n, g) => Primitive::Reference(PlainRef { id: *n as u64, gen: *g as u64 }),
        Val::Raw(t) => Primitive::name(t.as_str()),
    }
}

pub fn dict_to_prim(d: &Dict) -> Dictionary {
    let mut out = Dictionary::new();
    for (k, v) in d {
        out.insert(k.as_str(), val_to_prim(v));
    }
    out
}

/// Equality "integers and reals of equal numeric value being identified".
pub fn prim_eq(a: &Primitive, b: &Primitive) -> bool {
    match (a, b) {
        (Primitive::Integer(x), Primitive::Number(y)) | (Primitive::Number(y), Primitive::Integer(x)) => (*x as f32) == *y,
        (Primitive::Number(x), Primitive::Number(y)) => x == y || (x.is_nan() && y.is_nan()),
        (Primitive::Array(x), Primitive::Array(y)) => x.len() == y.len() && x.iter().zip(y).all(|(p, q)| prim_eq(p, q)),
        (Primitive::Dictionary(x), Primitive::Dictionary(y)) => x.len() == y.len() && x.iter().all(|(k, v)| y.get(k.as_str()).map(|w| prim_eq(v, w)).unwrap_or(false)),
        (x, y) => x == y,
    }
}

/// Primitive -> harness value (streams become their dictionary); used to record base-file objects.
pub fn prim_to_val(p: &Primitive) -> Val {
    match p {
        Primitive::Null => Val::Null,
        Primitive::Boolean(b) => Val::Bool(*b),
        Primitive::Integer(i) => Val::Int(*i as i64),
        Primitive::Number(n) => Val::Real(*n as f64),
        Primitive::Name(n) => Val::Name(n.to_string()),
        Primitive::String(s) => Val::Str(s.as_bytes().to_vec()),
        Primitive::Array(a) => Val::Arr(a.iter().map(prim_to_val).collect()),
        Primitive::Dictionary(d) => Val::Dict(d.iter().map(|(k, v)| (k.as_str().to_string(), prim_to_val(v))).collect()),
        Primitive::Reference(r) => Val::Ref(r.id as u32, r.gen as u16),
        Primitive::Stream(s) => Val::Dict(s.info.iter().map(|(k, v)| (k.as_str().to_string(), prim_to_val(v))).collect()),
    }
}
