//! Deterministic resource meters: a counting global allocator (per-thread accounting, active only
//! on walker threads) with a cap on single requests and on live bytes. A refused request makes the
//! allocation fail, which aborts the process; the supervisor observes that.

use std::alloc::{GlobalAlloc, Layout, System};
use std::cell::Cell;

pub struct Meter;

pub const CAP_SINGLE: usize = 256 << 20; // 256 MiB
pub const CAP_LIVE: usize = 512 << 20; // 512 MiB per metered thread

struct State {
    active: Cell<bool>,
    live: Cell<usize>,
    peak: Cell<usize>,
    calls: Cell<u64>,
    max_req: Cell<usize>,
}

thread_local! {
    static ST: State = const { State { active: Cell::new(false), live: Cell::new(0), peak: Cell::new(0), calls: Cell::new(0), max_req: Cell::new(0) } };
}

/// Writes "ALLOC-REFUSED <kind> <size>" to stderr without allocating.
fn refuse(kind: &str, size: usize) {
    let mut arr = [0u8; 96];
    let mut n = 0;
    for b in b"ALLOC-REFUSED ".iter().chain(kind.as_bytes().iter().take(40)) {
        arr[n] = *b;
        n += 1;
    }
    arr[n] = b' ';
    n += 1;
    let mut digits = [0u8; 20];
    let mut d = 0;
    let mut v = size;
    loop {
        digits[d] = b'0' + (v % 10) as u8;
        d += 1;
        v /= 10;
        if v == 0 {
            break;
        }
    }
    while d > 0 {
        d -= 1;
        arr[n] = digits[d];
        n += 1;
    }
    arr[n] = b'\n';
    n += 1;
    unsafe {
        libc::write(2, arr.as_ptr() as *const libc::c_void, n);
    }
}

unsafe impl GlobalAlloc for Meter {
    unsafe fn alloc(&self, layout: Layout) -> *mut u8 {
        let size = layout.size();
        let ok = ST
            .try_with(|s| {
                if !s.active.get() {
                    return true;
                }
                s.calls.set(s.calls.get() + 1);
                if size > s.max_req.get() {
                    s.max_req.set(size);
                }
                if size > CAP_SINGLE {
                    s.active.set(false);
                    refuse("single-request", size);
                    return false;
                }
                let live = s.live.get() + size;
                if live > CAP_LIVE {
                    s.active.set(false);
                    refuse("live-bytes", live);
                    return false;
                }
                s.live.set(live);
                if live > s.peak.get() {
                    s.peak.set(live);
                }
                true
            })
            .unwrap_or(true);
        if !ok {
            return std::ptr::null_mut();
        }
        System.alloc(layout)
    }
    unsafe fn dealloc(&self, ptr: *mut u8, layout: Layout) {
        let _ = ST.try_with(|s| {
            if s.active.get() {
                s.live.set(s.live.get().saturating_sub(layout.size()));
            }
        });
        System.dealloc(ptr, layout)
    }
    unsafe fn realloc(&self, ptr: *mut u8, layout: Layout, new_size: usize) -> *mut u8 {
        let ok = ST
            .try_with(|s| {
                if !s.active.get() {
                    return true;
                }
                s.calls.set(s.calls.get() + 1);
                if new_size > s.max_req.get() {
                    s.max_req.set(new_size);
                }
                if new_size > CAP_SINGLE {
                    s.active.set(false);
                    refuse("single-request", new_size);
                    return false;
                }
                let live = s.live.get().saturating_sub(layout.size()) + new_size;
                if live > CAP_LIVE {
                    s.active.set(false);
                    refuse("live-bytes", live);
                    return false;
                }
                s.live.set(live);
                if live > s.peak.get() {
                    s.peak.set(live);
                }
                true
            })
            .unwrap_or(true);
        if !ok {
            return std::ptr::null_mut();
        }
        System.realloc(ptr, layout, new_size)
    }
}

#[derive(Clone, Copy, Debug, Default)]
pub struct Reading {
    pub peak: usize,
    pub calls: u64,
    pub max_req: usize,
}

/// Start metering on the current thread (counters reset).
pub fn start() {
    ST.with(|s| {
        s.live.set(0);
        s.peak.set(0);
        s.calls.set(0);
        s.max_req.set(0);
        s.active.set(true);
    });
}
pub fn stop() -> Reading {
    ST.with(|s| {
        s.active.set(false);
        Reading { peak: s.peak.get(), calls: s.calls.get(), max_req: s.max_req.get() }
    })
}
