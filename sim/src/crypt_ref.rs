//! The writer's side of the standard security handler, revisions 2 and 3 (RC4, 40 to 128 bit), written
//! from ISO 32000-1 §7.6 and RFC 1321 and independent of the pdf crate. `selftest` checks it against
//! the two RC4 files of the repository's corpus (their /O and /U entries are recomputed from the
//! passwords), so that an encrypted document written by the harness is a valid one by a second opinion.

use crate::docgen::Val;

pub fn md5(msg: &[u8]) -> [u8; 16] {
    const S: [u32; 64] = [
        7, 12, 17, 22, 7, 12, 17, 22, 7, 12, 17, 22, 7, 12, 17, 22, 5, 9, 14, 20, 5, 9, 14, 20, 5, 9, 14, 20, 5, 9, 14, 20, 4, 11, 16, 23, 4, 11, 16, 23, 4, 11, 16, 23, 4, 11, 16, 23, 6, 10,
        15, 21, 6, 10, 15, 21, 6, 10, 15, 21, 6, 10, 15, 21,
    ];
    let k: Vec<u32> = (0..64).map(|i| ((i as f64 + 1.0).sin().abs() * 4294967296.0) as u32).collect();
    let (mut a0, mut b0, mut c0, mut d0) = (0x67452301u32, 0xefcdab89u32, 0x98badcfeu32, 0x10325476u32);
    let mut m = msg.to_vec();
    m.push(0x80);
    while m.len() % 64 != 56 {
        m.push(0);
    }
    m.extend_from_slice(&((msg.len() as u64).wrapping_mul(8)).to_le_bytes());
    for chunk in m.chunks(64) {
        let w: Vec<u32> = chunk.chunks(4).map(|c| u32::from_le_bytes([c[0], c[1], c[2], c[3]])).collect();
        let (mut a, mut b, mut c, mut d) = (a0, b0, c0, d0);
        for i in 0..64 {
            let (mut f, g) = match i / 16 {
                0 => ((b & c) | (!b & d), i),
                1 => ((d & b) | (!d & c), (5 * i + 1) % 16),
                2 => (b ^ c ^ d, (3 * i + 5) % 16),
                _ => (c ^ (b | !d), (7 * i) % 16),
            };
            f = f.wrapping_add(a).wrapping_add(k[i]).wrapping_add(w[g]);
            a = d;
            d = c;
            c = b;
            b = b.wrapping_add(f.rotate_left(S[i]));
        }
        a0 = a0.wrapping_add(a);
        b0 = b0.wrapping_add(b);
        c0 = c0.wrapping_add(c);
        d0 = d0.wrapping_add(d);
    }
    let mut out = [0u8; 16];
    out[0..4].copy_from_slice(&a0.to_le_bytes());
    out[4..8].copy_from_slice(&b0.to_le_bytes());
    out[8..12].copy_from_slice(&c0.to_le_bytes());
    out[12..16].copy_from_slice(&d0.to_le_bytes());
    out
}

pub fn rc4(key: &[u8], data: &[u8]) -> Vec<u8> {
    let mut s: Vec<u8> = (0..=255).collect();
    let mut j = 0usize;
    for i in 0..256 {
        j = (j + s[i] as usize + key[i % key.len()] as usize) & 255;
        s.swap(i, j);
    }
    let (mut i, mut j) = (0usize, 0usize);
    data.iter()
        .map(|&b| {
            i = (i + 1) & 255;
            j = (j + s[i] as usize) & 255;
            s.swap(i, j);
            b ^ s[(s[i] as usize + s[j] as usize) & 255]
        })
        .collect()
}

const PAD: [u8; 32] = [
    0x28, 0xBF, 0x4E, 0x5E, 0x4E, 0x75, 0x8A, 0x41, 0x64, 0x00, 0x4E, 0x56, 0xFF, 0xFA, 0x01, 0x08, 0x2E, 0x2E, 0x00, 0xB6, 0xD0, 0x68, 0x3E, 0x80, 0x2F, 0x0C, 0xA9, 0xFE, 0x64, 0x53, 0x69, 0x7A,
];

fn padded(pw: &[u8]) -> Vec<u8> {
    let mut v: Vec<u8> = pw.iter().cloned().take(32).collect();
    v.extend_from_slice(&PAD[..32 - v.len()]);
    v
}

/// Algorithm 3: the /O entry.
pub fn compute_o(r: u8, key_len: usize, owner_pw: &[u8], user_pw: &[u8]) -> Vec<u8> {
    let mut h = md5(&padded(if owner_pw.is_empty() { user_pw } else { owner_pw })).to_vec();
    if r >= 3 {
        for _ in 0..50 {
            h = md5(&h).to_vec();
        }
    }
    let key = &h[..key_len];
    let mut out = rc4(key, &padded(user_pw));
    if r >= 3 {
        for i in 1..=19u8 {
            let k: Vec<u8> = key.iter().map(|b| b ^ i).collect();
            out = rc4(&k, &out);
        }
    }
    out
}

/// Algorithm 2: the file key from the user password.
pub fn compute_key(r: u8, key_len: usize, user_pw: &[u8], o: &[u8], p: i32, id0: &[u8], encrypt_metadata: bool) -> Vec<u8> {
    let mut m = padded(user_pw);
    m.extend_from_slice(o);
    m.extend_from_slice(&(p as u32).to_le_bytes());
    m.extend_from_slice(id0);
    if r >= 4 && !encrypt_metadata {
        m.extend_from_slice(&[0xff; 4]);
    }
    let mut h = md5(&m).to_vec();
    if r >= 3 {
        for _ in 0..50 {
            h = md5(&h[..key_len]).to_vec();
        }
    }
    h[..key_len].to_vec()
}

/// Algorithms 4 and 5: the /U entry.
pub fn compute_u(r: u8, key: &[u8], id0: &[u8]) -> Vec<u8> {
    if r == 2 {
        return rc4(key, &PAD);
    }
    let mut m = PAD.to_vec();
    m.extend_from_slice(id0);
    let mut out = rc4(key, &md5(&m));
    for i in 1..=19u8 {
        let k: Vec<u8> = key.iter().map(|b| b ^ i).collect();
        out = rc4(&k, &out);
    }
    out.extend_from_slice(&[0u8; 16]);
    out
}

/// Algorithm 1: the key of one object.
pub fn object_key(file_key: &[u8], num: u32, gen: u16) -> Vec<u8> {
    let mut m = file_key.to_vec();
    m.extend_from_slice(&num.to_le_bytes()[..3]);
    m.extend_from_slice(&gen.to_le_bytes());
    let n = (file_key.len() + 5).min(16);
    md5(&m)[..n].to_vec()
}

#[derive(Clone, Debug, PartialEq)]
pub struct EncSpec {
    /// 2 (40 bit) or 3 (40..128 bit) or 4 (crypt filters with /CFM /V2, 128 bit)
    pub r: u8,
    pub key_len: usize,
    pub user_pw: Vec<u8>,
    pub owner_pw: Vec<u8>,
    pub p: i32,
    pub id0: Vec<u8>,
    /// the object that holds the encryption dictionary (its strings are not encrypted)
    pub enc_obj: u32,
}

impl EncSpec {
    pub fn o(&self) -> Vec<u8> {
        compute_o(self.r, self.key_len, &self.owner_pw, &self.user_pw)
    }
    pub fn file_key(&self) -> Vec<u8> {
        compute_key(self.r, self.key_len, &self.user_pw, &self.o(), self.p, &self.id0, true)
    }
    pub fn dict(&self) -> Val {
        let key = self.file_key();
        let mut d = vec![
            ("Filter", Val::name("Standard")),
            ("V", Val::Int(match self.r {
                2 => 1,
                3 => 2,
                _ => 4,
            })),
            ("R", Val::Int(self.r as i64)),
            ("Length", Val::Int(self.key_len as i64 * 8)),
            ("P", Val::Int(self.p as i64)),
            ("O", Val::Str(self.o())),
            ("U", Val::Str(compute_u(self.r, &key, &self.id0))),
        ];
        if self.r >= 4 {
            d.push(("CF", Val::dict(vec![("StdCF", Val::dict(vec![("CFM", Val::name("V2")), ("AuthEvent", Val::name("DocOpen")), ("Length", Val::Int(self.key_len as i64))]))])));
            d.push(("StmF", Val::name("StdCF")));
            d.push(("StrF", Val::name("StdCF")));
        }
        Val::dict(d)
    }
    /// every string in `v` encrypted (or, the cipher being symmetric, decrypted) for object (num, gen)
    pub fn crypt_val(&self, v: &Val, num: u32, gen: u16) -> Val {
        let key = object_key(&self.file_key(), num, gen);
        fn go(v: &Val, key: &[u8]) -> Val {
            match v {
                Val::Str(s) => Val::Str(rc4(key, s)),
                Val::Arr(a) => Val::Arr(a.iter().map(|x| go(x, key)).collect()),
                Val::Dict(d) => Val::Dict(d.iter().map(|(k, x)| (k.clone(), go(x, key))).collect()),
                other => other.clone(),
            }
        }
        go(v, &key)
    }
    pub fn crypt_data(&self, data: &[u8], num: u32, gen: u16) -> Vec<u8> {
        rc4(&object_key(&self.file_key(), num, gen), data)
    }
    pub fn to_json(&self) -> serde_json::Value {
        serde_json::json!({"r": self.r, "key_len": self.key_len, "user_pw": crate::docgen::hex(&self.user_pw), "owner_pw": crate::docgen::hex(&self.owner_pw), "p": self.p,
            "id0": crate::docgen::hex(&self.id0), "enc_obj": self.enc_obj})
    }
    pub fn from_json(j: &serde_json::Value) -> Option<EncSpec> {
        Some(EncSpec {
            r: j.get("r")?.as_u64()? as u8,
            key_len: j.get("key_len")?.as_u64()? as usize,
            user_pw: crate::docgen::unhex(j.get("user_pw")?.as_str()?)?,
            owner_pw: crate::docgen::unhex(j.get("owner_pw")?.as_str()?)?,
            p: j.get("p")?.as_i64()? as i32,
            id0: crate::docgen::unhex(j.get("id0")?.as_str()?)?,
            enc_obj: j.get("enc_obj")?.as_u64()? as u32,
        })
    }
}

