//! Process model, evidence and reporting shared by all checks.
//!
//! `pdfsim <id> quick|thorough` is the supervisor. It starts W worker processes
//! (`pdfsim --worker ...`); run i goes to worker i mod W; a run depends only on (VERIF_SEED, id, i),
//! so results do not depend on W. A worker announces `START i` before each run; panics are caught
//! inside the worker but the panic hook ships site and message to stderr at once, because a
//! panic is not always survivable. A worker that dies or exceeds the wall-clock backstop is
//! attributed to the announced run, which is re-executed alone to confirm, and the worker is
//! respawned after it. Harness problems exit 2, never 1.

use crate::rng::{fnv64, splitmix64};
use serde_json::{json, Value as J};
use std::collections::{BTreeMap, BTreeSet, HashSet};
use std::io::{BufRead, BufReader, Write};
use std::process::{Command, Stdio};
use std::sync::mpsc;
use std::time::{Duration, Instant};

#[derive(Clone, Copy, Debug, PartialEq, Eq)]
pub enum Tier {
    Quick,
    Thorough,
}
impl Tier {
    pub fn name(self) -> &'static str {
        match self {
            Tier::Quick => "quick",
            Tier::Thorough => "thorough",
        }
    }
    pub fn parse(s: &str) -> Option<Tier> {
        match s {
            "quick" => Some(Tier::Quick),
            "thorough" => Some(Tier::Thorough),
            _ => None,
        }
    }
}

#[derive(Clone, Debug)]
pub struct Violation {
    /// PRNG-independent identity after minimisation (DESIGN §7)
    pub signature: String,
    pub detail: String,
    /// replayable case (decisions, not PRNG state)
    pub case: J,
}

#[derive(Default)]
pub struct RunReport {
    pub trace_hash: u64,
    pub nontrivial: bool,
    pub violations: Vec<Violation>,
    pub counters: BTreeMap<String, u64>,
    pub sample: Option<J>,
}
impl RunReport {
    pub fn count(&mut self, k: &str, n: u64) {
        *self.counters.entry(k.to_string()).or_insert(0) += n;
    }
}

pub struct WorkerCtx {
    pub verif_seed: u64,
    pub tier: Tier,
    pub repo: String,
}

/// Description of what a check's evidence should say beyond the counters.
pub struct CheckInfo {
    pub id: &'static str,
    pub level: &'static str,
    pub rule: &'static str,
    pub assumptions: Vec<String>,
    pub components_real: Vec<&'static str>,
    pub components_stub: Vec<&'static str>,
    pub per_run_timeout_s: u64,
    /// counters that must be non-zero in the thorough tier (a probe stuck at zero = harness error)
    pub required_probes: Vec<&'static str>,
    pub exhaustive: bool,
}

pub trait Check {
    fn info(&self) -> CheckInfo;
    fn total_runs(&self, tier: Tier) -> u64;
    /// One simulated run. Must be a pure function of (ctx.verif_seed, id, i) and the code under test.
    fn run(&mut self, ctx: &WorkerCtx, i: u64) -> RunReport;
    /// Re-run a recorded case; returns the violations it shows (signature must match to count).
    fn replay(&mut self, ctx: &WorkerCtx, case: &J) -> Vec<Violation>;
    /// The case run `i` executes, written out (for triage of fatal runs, which are identified by index).
    fn describe(&mut self, _ctx: &WorkerCtx, _i: u64) -> J {
        J::Null
    }
}

// ---------------------------------------------------------------------------------------------
// panic capture

static LAST_PANIC: std::sync::Mutex<Option<String>> = std::sync::Mutex::new(None);
static CURRENT_RUN: std::sync::atomic::AtomicU64 = std::sync::atomic::AtomicU64::new(u64::MAX);

/// first panic (site + message) since the last clear, from whichever thread
pub fn take_last_panic() -> Option<String> {
    LAST_PANIC.lock().unwrap_or_else(|e| e.into_inner()).take()
}
pub fn clear_last_panic() {
    *LAST_PANIC.lock().unwrap_or_else(|e| e.into_inner()) = None;
}

pub fn install_panic_hook() {
    std::panic::set_hook(Box::new(|info| {
        let payload = info.payload();
        if payload.is::<crate::sched::SimAbort>() || payload.is::<crate::seams::MeterTrip>() {
            return;
        }
        let msg = if let Some(s) = payload.downcast_ref::<&str>() {
            s.to_string()
        } else if let Some(s) = payload.downcast_ref::<String>() {
            s.clone()
        } else {
            "<non-string panic payload>".to_string()
        };
        let loc = info.location().map(|l| format!("{}:{}", l.file(), l.line())).unwrap_or_else(|| "?".into());
        if loc.contains("/sim/src/") && !loc.contains("/pdf/src/") {
            // a panic in the harness's own code is a harness error, never a finding about the library
            let line = format!("HARNESS-PANIC {} {}\n", loc, msg.lines().next().unwrap_or(""));
            unsafe {
                libc::write(2, line.as_ptr() as *const libc::c_void, line.len());
            }
            std::process::exit(2);
        }
        let loc = shorten_path(&loc);
        let first_line: String = msg.lines().next().unwrap_or("").chars().take(100).collect();
        let text = format!("panic@{} {}", loc, first_line);
        {
            let mut p = LAST_PANIC.lock().unwrap_or_else(|e| e.into_inner());
            if p.is_none() {
                *p = Some(text.clone());
            }
        }
        // unbuffered, immediately: the process may not survive (panic while unwinding aborts)
        let run = CURRENT_RUN.load(std::sync::atomic::Ordering::Relaxed);
        let line = format!("PANIC run={} {}\n", run as i64, text);
        unsafe {
            libc::write(2, line.as_ptr() as *const libc::c_void, line.len());
        }
    }));
}

pub fn shorten_path(loc: &str) -> String {
    // keep the path from "pdf/src" or the crate directory on, so signatures do not depend on where the repo lives
    if let Some(p) = loc.find("/pdf/src/") {
        return loc[p + 1..].to_string();
    }
    if let Some(p) = loc.find("/pdf_derive/src/") {
        return loc[p + 1..].to_string();
    }
    if let Some(p) = loc.find("/registry/src/") {
        let rest = &loc[p + 14..];
        if let Some(q) = rest.find('/') {
            return rest[q + 1..].to_string();
        }
    }
    loc.to_string()
}

/// Normalise a panic text into a signature: site + message with digits collapsed.
pub fn panic_signature(text: &str) -> String {
    let mut out = String::new();
    let mut parts = text.splitn(2, ' ');
    let site = parts.next().unwrap_or("");
    let msg = parts.next().unwrap_or("");
    out.push_str(site);
    out.push(' ');
    let mut last_digit = false;
    for c in msg.chars().take(60) {
        if c.is_ascii_digit() {
            if !last_digit {
                out.push('#');
            }
            last_digit = true;
        } else {
            out.push(c);
            last_digit = false;
        }
    }
    out.trim().to_string()
}

// ---------------------------------------------------------------------------------------------
// worker side

pub fn worker_main(check: &mut dyn Check, ctx: &WorkerCtx, start: u64, stride: u64, end: u64) -> i32 {
    let stdout = std::io::stdout();
    let mut totals: BTreeMap<String, u64> = BTreeMap::new();
    let mut viol_seen: BTreeMap<String, u64> = BTreeMap::new();
    let mut samples = 0;
    let mut i = start;
    while i < end {
        CURRENT_RUN.store(i, std::sync::atomic::Ordering::Relaxed);
        {
            let mut o = stdout.lock();
            let _ = writeln!(o, "START {}", i);
            let _ = o.flush();
        }
        let mut rep = check.run(ctx, i);
        for (family, k, seed) in crate::docs::BROKEN.lock().unwrap().drain(..) {
            rep.violations.push(Violation {
                signature: format!("a well-formed generated document does not load ({})", family),
                detail: format!("document {} of family {} (written by the harness, accepted by its strict reader)", k, family),
                case: json!({"kind": "generated-document", "property": check.info().id, "family": family, "k": k, "verif_seed": seed}),
            });
        }
        let mut o = stdout.lock();
        for v in &rep.violations {
            let n = viol_seen.entry(v.signature.clone()).or_insert(0);
            *n += 1;
            if *n <= 3 {
                let _ = writeln!(o, "VIOL {} {}", i, json!({"signature": v.signature, "detail": v.detail, "case": v.case}));
            } else {
                let _ = writeln!(o, "VIOLCOUNT {} {}", i, json!({"signature": v.signature}));
            }
        }
        for (k, v) in &rep.counters {
            *totals.entry(k.clone()).or_insert(0) += v;
        }
        if let Some(s) = &rep.sample {
            if samples < 2 {
                samples += 1;
                let _ = writeln!(o, "SAMPLE {}", s);
            }
        }
        let _ = writeln!(o, "DONE {} {:016x} {}", i, rep.trace_hash, if rep.nontrivial { 1 } else { 0 });
        let _ = o.flush();
        i += stride;
    }
    let mut o = stdout.lock();
    let _ = writeln!(o, "SUMMARY {}", json!(totals));
    let _ = o.flush();
    0
}

// ---------------------------------------------------------------------------------------------
// known findings

pub struct Known {
    pub findings: Vec<(String, String, String)>, // (property, signature, what)
}
impl Known {
    pub fn load(root: &str) -> Known {
        let mut findings = vec![];
        if let Ok(text) = std::fs::read_to_string(format!("{}/known_findings.jsonl", root)) {
            for line in text.lines() {
                if let Ok(j) = serde_json::from_str::<J>(line) {
                    if j.get("finding").is_some() {
                        findings.push((
                            j.get("property").and_then(|x| x.as_str()).unwrap_or("").to_string(),
                            j.get("signature").and_then(|x| x.as_str()).unwrap_or("").to_string(),
                            j.get("what").and_then(|x| x.as_str()).unwrap_or("").to_string(),
                        ));
                    }
                }
            }
        }
        Known { findings }
    }
    pub fn matches(&self, property: &str, signature: &str) -> Option<&str> {
        self.findings.iter().find(|(p, s, _)| p == property && s == signature).map(|(_, _, w)| w.as_str())
    }
}

// ---------------------------------------------------------------------------------------------
// supervisor

enum Msg {
    Line(usize, String),
    Eof(usize),
}

struct WorkerSlot {
    child: std::process::Child,
    current: Option<u64>,
    started_at: Instant,
    next_after_death: u64,
    stride: u64,
    end: u64,
    stderr_path: String,
    done: bool,
}

fn spawn_worker(exe: &str, id: &str, tier: Tier, seed: u64, start: u64, stride: u64, end: u64, slot: usize, work: &str, tx: &mpsc::Sender<Msg>, gen: u64) -> WorkerSlot {
    let stderr_path = format!("{}/worker{}_{}.stderr", work, slot, gen);
    let errf = std::fs::File::create(&stderr_path).expect("stderr file");
    let mut child = Command::new(exe)
        .args(["--worker", id, tier.name(), &seed.to_string(), &start.to_string(), &stride.to_string(), &end.to_string()])
        .env("VERIF_WORKDIR", work)
        .stdin(Stdio::null())
        .stdout(Stdio::piped())
        .stderr(errf)
        .spawn()
        .expect("spawn worker");
    let out = child.stdout.take().unwrap();
    let tx = tx.clone();
    std::thread::spawn(move || {
        let rd = BufReader::new(out);
        for line in rd.lines() {
            match line {
                Ok(l) => {
                    if tx.send(Msg::Line(slot, l)).is_err() {
                        return;
                    }
                }
                Err(_) => break,
            }
        }
        let _ = tx.send(Msg::Eof(slot));
    });
    WorkerSlot { child, current: None, started_at: Instant::now(), next_after_death: start, stride, end, stderr_path, done: false }
}

/// Class of a worker death plus, when the run was executed with VERIF_ANNOUNCE (confirmation and
/// replay runs), the library call that was being made.
fn death_signature(status: &std::process::ExitStatus, stderr: &str, run: u64, timed_out: bool) -> (String, String) {
    let (class, detail) = death_class(status, stderr, run, timed_out);
    match stderr.lines().rev().find(|l| l.starts_with("CALL ")) {
        Some(c) => (format!("{} in {}", class, &c[5..]), detail),
        None => (class, detail),
    }
}
fn death_class(status: &std::process::ExitStatus, stderr: &str, run: u64, timed_out: bool) -> (String, String) {
    use std::os::unix::process::ExitStatusExt;
    // first panic announced for this run, if any
    let marker = format!("PANIC run={} ", run as i64);
    let first_panic = stderr.lines().find(|l| l.starts_with(&marker)).map(|l| l[marker.len()..].to_string());
    if timed_out {
        return ("timeout: no result within the wall-clock backstop".into(), first_panic.unwrap_or_default());
    }
    if stderr.contains("has overflowed its stack") {
        return ("stack-overflow".into(), stderr.lines().rev().find(|l| l.contains("overflowed")).unwrap_or("").to_string());
    }
    if let Some(l) = stderr.lines().find(|l| l.starts_with("ALLOC-REFUSED")) {
        return ("abort: allocation request above the cap".into(), l.to_string());
    }
    if stderr.contains("STALL:") {
        return ("stall: a simulated thread blocked for real".into(), first_panic.unwrap_or_default());
    }
    if let Some(p) = first_panic {
        return (format!("abort after {}", panic_signature(&p)), p);
    }
    if stderr.contains("memory allocation of") {
        return ("abort: allocation failure".into(), stderr.lines().rev().find(|l| l.contains("memory allocation of")).unwrap_or("").to_string());
    }
    match status.signal() {
        Some(s) => (format!("killed by signal {}", s), String::new()),
        None => (format!("exit status {}", status.code().unwrap_or(-1)), String::new()),
    }
}

pub struct Summary {
    pub exit_code: i32,
}

pub fn work_dir(root: &str, id: &str) -> String {
    let d = format!("{}/.work/run-{}-{}", root, id, std::process::id());
    let _ = std::fs::create_dir_all(&d);
    d
}

pub fn supervisor_main(info: &CheckInfo, total_runs: u64, tier: Tier, verif_seed: u64, root: &str) -> i32 {
    let t0 = Instant::now();
    let exe = std::env::current_exe().expect("exe").to_string_lossy().to_string();
    let id = info.id;
    let work = work_dir(root, id);
    let w_count: u64 = std::env::var("VERIF_WORKERS").ok().and_then(|s| s.parse().ok()).unwrap_or(16).max(1).min(total_runs.max(1));
    let (tx, rx) = mpsc::channel::<Msg>();
    let mut gen = 0u64;
    let mut slots: Vec<WorkerSlot> = (0..w_count)
        .map(|s| {
            gen += 1;
            spawn_worker(&exe, id, tier, verif_seed, s, w_count, total_runs, s as usize, &work, &tx, gen)
        })
        .collect();

    let known = Known::load(root);
    let mut done_runs: u64 = 0;
    let mut hashes: HashSet<u64> = HashSet::new();
    let mut all_hashes: BTreeMap<u64, u64> = BTreeMap::new(); // run -> hash (for the determinism sample)
    let mut counters: BTreeMap<String, u64> = BTreeMap::new();
    let mut samples: Vec<J> = vec![];
    // signature -> (count, first (smallest) case, detail)
    let mut viols: BTreeMap<String, (u64, J, String, u64)> = BTreeMap::new();
    let mut harness_errors: Vec<String> = vec![];
    let det_sample_n: u64 = if tier == Tier::Quick { 64 } else { 1024 };
    let det_stride = (total_runs / det_sample_n).max(1);
    let timeout = Duration::from_secs(info.per_run_timeout_s);

    let mut live = slots.len();
    let mut deaths = 0u64;
    let mut slow_not_reproduced = 0u64;
    let mut stopped_early = false;
    let mut stopped_for_violations = false;
    let mut confirmed_by_class: BTreeMap<String, u64> = BTreeMap::new();
    let mut unconfirmed_by_class: BTreeMap<String, u64> = BTreeMap::new();
    while live > 0 {
        let msg = rx.recv_timeout(Duration::from_millis(500));
        match msg {
            Ok(Msg::Line(s, line)) => {
                let mut it = line.splitn(3, ' ');
                match it.next() {
                    Some("START") => {
                        let i: u64 = it.next().and_then(|x| x.parse().ok()).unwrap_or(0);
                        slots[s].current = Some(i);
                        slots[s].started_at = Instant::now();
                    }
                    Some("DONE") => {
                        let i: u64 = it.next().and_then(|x| x.parse().ok()).unwrap_or(0);
                        let rest = it.next().unwrap_or("");
                        let mut r = rest.split(' ');
                        let h = u64::from_str_radix(r.next().unwrap_or("0"), 16).unwrap_or(0);
                        let nt = r.next() == Some("1");
                        if nt {
                            hashes.insert(h);
                        }
                        if i % det_stride == 0 {
                            all_hashes.insert(i, h);
                        }
                        done_runs += 1;
                        slots[s].current = None;
                        slots[s].next_after_death = i + slots[s].stride;
                    }
                    Some("VIOL") | Some("VIOLCOUNT") => {
                        let i: u64 = it.next().and_then(|x| x.parse().ok()).unwrap_or(0);
                        if let Ok(j) = serde_json::from_str::<J>(it.next().unwrap_or("")) {
                            let sig = j.get("signature").and_then(|x| x.as_str()).unwrap_or("?").to_string();
                            let case = j.get("case").cloned().unwrap_or(J::Null);
                            let detail = j.get("detail").and_then(|x| x.as_str()).unwrap_or("").to_string();
                            let size = case.to_string().len() as u64;
                            let e = viols.entry(sig).or_insert((0, J::Null, String::new(), u64::MAX));
                            e.0 += 1;
                            if !case.is_null() && (e.1.is_null() || size < e.3) {
                                e.1 = case;
                                e.2 = detail;
                                e.3 = size;
                            }
                            let _ = i;
                            // a change that breaks a whole class of cases (every case of one template runs
                            // into a meter, say) makes the batch many times slower and adds nothing to the
                            // verdict: after 300 violating runs of one signature that is not a listed
                            // finding, the batch stops early
                            let sig = j.get("signature").and_then(|x| x.as_str()).unwrap_or("?");
                            if !stopped_early && viols.get(sig).map_or(false, |e| e.0 >= 300) && known.matches(id, sig).is_none() {
                                stopped_early = true;
                                stopped_for_violations = true;
                                for k in 0..slots.len() {
                                    let _ = slots[k].child.kill();
                                    slots[k].done = true;
                                    slots[k].current = None;
                                }
                            }
                        }
                    }
                    Some("SAMPLE") => {
                        if samples.len() < 3 {
                            let rest: Vec<&str> = line.splitn(2, ' ').collect();
                            if let Ok(j) = serde_json::from_str::<J>(rest.get(1).unwrap_or(&"")) {
                                samples.push(j);
                            }
                        }
                    }
                    Some("SUMMARY") => {
                        let rest: Vec<&str> = line.splitn(2, ' ').collect();
                        if let Ok(J::Object(m)) = serde_json::from_str::<J>(rest.get(1).unwrap_or(&"")) {
                            for (k, v) in m {
                                *counters.entry(k).or_insert(0) += v.as_u64().unwrap_or(0);
                            }
                        }
                        slots[s].done = true;
                    }
                    _ => {}
                }
            }
            Ok(Msg::Eof(s)) => {
                let status = slots[s].child.wait().expect("wait");
                if slots[s].done && (status.success() || stopped_early) {
                    live -= 1;
                    continue;
                }
                // the worker died (or was killed for a timeout) during run `i`
                let stderr = std::fs::read_to_string(&slots[s].stderr_path).unwrap_or_default();
                let i = match slots[s].current {
                    Some(i) => i,
                    None => {
                        harness_errors.push(format!("worker {} ended outside a run: {:?}\n{}", s, status, tail(&stderr, 20)));
                        live -= 1;
                        continue;
                    }
                };
                let timed_out = stderr.contains("SUPERVISOR-TIMEOUT");
                if let Some(l) = stderr.lines().find(|l| l.starts_with("HARNESS-PANIC") || l.starts_with("HARNESS-ERROR")) {
                    harness_errors.push(format!("run {}: {}", i, l));
                    done_runs += 1;
                    let next = i + slots[s].stride;
                    if next < slots[s].end && harness_errors.len() < 20 {
                        gen += 1;
                        let (stride, end) = (slots[s].stride, slots[s].end);
                        slots[s] = spawn_worker(&exe, id, tier, verif_seed, next, stride, end, s, &work, &tx, gen);
                    } else {
                        live -= 1;
                    }
                    continue;
                }
                let (class, detail) = death_class(&status, &stderr, i, timed_out);
                deaths += 1;
                // When a whole class of runs dies (a change that makes many cases hang or overflow), every
                // death is not confirmed again: three confirmed deaths of a class establish it, the rest are
                // counted; after 200 deaths the batch stops early (the verdict is already a violation).
                if confirmed_by_class.get(&class).cloned().unwrap_or(0) >= 3 {
                    *unconfirmed_by_class.entry(class.clone()).or_insert(0) += 1;
                    done_runs += 1;
                    let next = i + slots[s].stride;
                    if next < slots[s].end && deaths < 200 {
                        gen += 1;
                        let (stride, end) = (slots[s].stride, slots[s].end);
                        slots[s] = spawn_worker(&exe, id, tier, verif_seed, next, stride, end, s, &work, &tx, gen);
                    } else {
                        live -= 1;
                    }
                    if deaths >= 200 && !stopped_early {
                        stopped_early = true;
                        for k in 0..slots.len() {
                            if k != s {
                                let _ = slots[k].child.kill();
                                slots[k].done = true;
                                slots[k].current = None;
                            }
                        }
                    }
                    continue;
                }
                // confirm: re-execute run i alone, twice, announcing each library call, so that the
                // signature can name the call being made
                let mut confirmed = 0;
                let mut sig = class.clone();
                for attempt in 0..2 {
                    let out = Command::new(&exe)
                        .args(["--worker", id, tier.name(), &verif_seed.to_string(), &i.to_string(), "1", &(i + 1).to_string()])
                        .env("VERIF_ANNOUNCE", "1")
                        .env("VERIF_WORKDIR", &work)
                        .stdin(Stdio::null())
                        .stdout(Stdio::piped())
                        .stderr(Stdio::piped())
                        .spawn()
                        .and_then(|mut c| wait_with_timeout(&mut c, timeout + Duration::from_secs(5)));
                    match out {
                        Ok((st, o, e, to)) => {
                            // a run that was killed for the wall-clock backstop under load may complete
                            // when alone and report a violation of its own (a meter, a panic): that
                            // counts like any other reported violation
                            if attempt == 0 && st.success() && !to {
                                for line in o.lines().filter(|l| l.starts_with("VIOL ")) {
                                    let mut it = line.splitn(3, ' ');
                                    let _ = it.next();
                                    let _ = it.next();
                                    if let Ok(j) = serde_json::from_str::<J>(it.next().unwrap_or("")) {
                                        let vsig = j.get("signature").and_then(|x| x.as_str()).unwrap_or("?").to_string();
                                        let vcase = j.get("case").cloned().unwrap_or(J::Null);
                                        let vdetail = j.get("detail").and_then(|x| x.as_str()).unwrap_or("").to_string();
                                        let size = vcase.to_string().len() as u64;
                                        let en = viols.entry(vsig).or_insert((0, J::Null, String::new(), u64::MAX));
                                        en.0 += 1;
                                        if !vcase.is_null() && (en.1.is_null() || size < en.3) {
                                            en.1 = vcase;
                                            en.2 = vdetail;
                                            en.3 = size;
                                        }
                                    }
                                }
                            }
                            let (class2, _) = death_class(&st, &e, i, to);
                            let (sig2, _) = death_signature(&st, &e, i, to);
                            // The two solo re-executions decide: both must end fatally with the same
                            // signature. (Under load a run that dies of an allocation refusal when alone
                            // may first have been seen as a timeout; the solo result is the reproducible one.)
                            let _ = class2;
                            if (!st.success() || to) && (attempt == 0 || sig2 == sig) {
                                confirmed += 1;
                                sig = sig2;
                            }
                        }
                        Err(e) => harness_errors.push(format!("confirm run {} attempt {}: {}", i, attempt, e)),
                    }
                }
                if confirmed == 2 {
                    *confirmed_by_class.entry(class.clone()).or_insert(0) += 1;
                    let case = json!({"property": id, "kind": "run-index", "verif_seed": verif_seed, "tier": tier.name(), "run": i});
                    let e = viols.entry(sig.clone()).or_insert((0, J::Null, String::new(), u64::MAX));
                    e.0 += 1;
                    if e.1.is_null() {
                        e.1 = case;
                        e.2 = detail;
                    }
                } else if class.starts_with("timeout") {
                    // a run that exceeded the wall-clock backstop in the loaded batch but completes when
                    // re-executed alone was slow, not stuck: counted, not judged (the deterministic
                    // meters, not the wall clock, decide "out of proportion")
                    slow_not_reproduced += 1;
                } else {
                    harness_errors.push(format!("run {}: worker death '{}' did not reproduce ({} of 2)\n{}", i, sig, confirmed, tail(&stderr, 12)));
                }
                done_runs += 1;
                // respawn for the rest of this stride
                let next = i + slots[s].stride;
                if next < slots[s].end {
                    gen += 1;
                    let (stride, end) = (slots[s].stride, slots[s].end);
                    slots[s] = spawn_worker(&exe, id, tier, verif_seed, next, stride, end, s, &work, &tx, gen);
                } else {
                    live -= 1;
                }
            }
            Err(mpsc::RecvTimeoutError::Timeout) => {}
            Err(mpsc::RecvTimeoutError::Disconnected) => break,
        }
        // wall-clock backstop
        for s in 0..slots.len() {
            if slots[s].current.is_some() && !slots[s].done && slots[s].started_at.elapsed() > timeout {
                if let Ok(mut f) = std::fs::OpenOptions::new().append(true).open(&slots[s].stderr_path) {
                    let _ = writeln!(f, "SUPERVISOR-TIMEOUT");
                }
                let _ = slots[s].child.kill();
                slots[s].started_at = Instant::now() + Duration::from_secs(3600);
            }
        }
    }

    // determinism self-check: re-run a sample of runs in one fresh worker process each batch
    let mut det_checked = 0u64;
    let mut det_mismatch = 0u64;
    {
        let idx: Vec<u64> = all_hashes.keys().cloned().collect();
        let chunks: Vec<Vec<u64>> = idx.chunks(((idx.len() + 15) / 16).max(1)).map(|c| c.to_vec()).collect();
        let mut children = vec![];
        for c in &chunks {
            let list: Vec<String> = c.iter().map(|x| x.to_string()).collect();
            let child = Command::new(&exe)
                .args(["--worker-list", id, tier.name(), &verif_seed.to_string(), &list.join(",")])
                .stdin(Stdio::null())
                .stdout(Stdio::piped())
                .stderr(Stdio::null())
                .spawn();
            children.push(child);
        }
        for child in children {
            match child.and_then(|c| c.wait_with_output()) {
                Ok(out) => {
                    for line in String::from_utf8_lossy(&out.stdout).lines() {
                        if let Some(rest) = line.strip_prefix("DONE ") {
                            let mut r = rest.split(' ');
                            let i: u64 = r.next().and_then(|x| x.parse().ok()).unwrap_or(u64::MAX);
                            let h = u64::from_str_radix(r.next().unwrap_or("0"), 16).unwrap_or(0);
                            if let Some(&h0) = all_hashes.get(&i) {
                                det_checked += 1;
                                if h0 != h {
                                    det_mismatch += 1;
                                    harness_errors.push(format!("nondeterminism: run {} trace hash {:016x} vs {:016x}", i, h0, h));
                                }
                            }
                        }
                    }
                }
                Err(e) => harness_errors.push(format!("determinism re-run failed: {}", e)),
            }
        }
    }

    // report
    let mut exit = 0;
    let mut known_hit: Vec<String> = vec![];
    let mut violations_reported = 0;
    let replay_dir = format!("{}/replays/{}", root, id);
    for (sig, (count, case, detail, _)) in &viols {
        if let Some(what) = known.matches(id, sig) {
            println!("KNOWN-FINDING: property={} {} [signature: {}] ({} runs)", id, what, sig, count);
            known_hit.push(sig.clone());
            continue;
        }
        let _ = std::fs::create_dir_all(&replay_dir);
        let path = format!("{}/{:016x}.json", replay_dir, splitmix64(fnv64(sig.as_bytes())));
        let file = json!({"property": id, "signature": sig, "detail": detail, "occurrences": count, "case": case});
        let _ = std::fs::write(&path, serde_json::to_string_pretty(&file).unwrap());
        // replay in a fresh process; it must reproduce the same signature
        let rep = Command::new(&exe).args([id, "--replay", &path]).stdin(Stdio::null()).stdout(Stdio::piped()).stderr(Stdio::piped()).spawn().and_then(|mut c| wait_with_timeout(&mut c, timeout + Duration::from_secs(30)));
        let reproduced = match &rep {
            Ok((st, out, _e, _to)) => st.code() == Some(1) && out.lines().any(|l| l.starts_with("REPRODUCED ")),
            Err(_) => false,
        };
        if reproduced {
            println!("VIOLATION property={} replay={}", id, path);
            println!("  signature: {}", sig);
            println!("  detail: {}", detail.lines().next().unwrap_or(""));
            println!("  occurrences: {}", count);
            violations_reported += 1;
            exit = 1;
        } else {
            harness_errors.push(format!("violation '{}' did not reproduce from its replay file {}", sig, path));
        }
    }
    if tier == Tier::Thorough {
        for p in &info.required_probes {
            if counters.get(*p).cloned().unwrap_or(0) == 0 {
                harness_errors.push(format!("probe '{}' stuck at zero", p));
            }
        }
    }
    if stopped_for_violations {
        println!("{} {}: stopped early after 300 violating runs of one signature ({} of {} runs done)", id, tier.name(), done_runs, total_runs);
    } else if stopped_early {
        println!("{} {}: stopped early after {} worker deaths ({:?} confirmed, {:?} further deaths counted without confirmation)", id, tier.name(), deaths, confirmed_by_class, unconfirmed_by_class);
    } else if done_runs != total_runs {
        harness_errors.push(format!("{} of {} runs completed", done_runs, total_runs));
    }

    let wall = t0.elapsed().as_secs_f64();
    let evidence = json!({
        "property_id": id,
        "tier": tier.name(),
        "seed": verif_seed,
        "level": info.level,
        "coverage": {
            "evaluations": done_runs,
            "distinct_nontrivial": hashes.len(),
            "rule": info.rule,
            "samples": samples,
            "exhaustive": info.exhaustive,
            "runs_per_hour": if wall > 0.0 { (done_runs as f64 / wall * 3600.0) as u64 } else { 0 },
            "simulated_time": "not applicable: the library has no clock, timer or timeout; scheduler steps / operations are reported instead",
            "counters": counters,
            "components": {"real": info.components_real, "stub": info.components_stub},
            "determinism_selfcheck": {"runs_reexecuted_in_other_process": det_checked, "mismatches": det_mismatch},
            "known_findings_hit": known_hit,
            "worker_deaths": deaths,
            "timeouts_under_load_not_reproduced_alone": slow_not_reproduced,
            "stopped_early_after_many_worker_deaths": stopped_early,
            "workers": w_count,
        },
        "assumptions": info.assumptions,
        "wall_s": wall,
        "violations": violations_reported,
    });
    let _ = std::fs::create_dir_all(format!("{}/evidence", root));
    let ev_path = format!("{}/evidence/{}.json", root, id);
    if std::fs::write(&ev_path, serde_json::to_string_pretty(&evidence).unwrap()).is_err() {
        harness_errors.push(format!("cannot write {}", ev_path));
    }
    let _ = std::fs::remove_dir_all(&work);
    println!(
        "{} {}: {} runs, {} distinct non-trivial traces, {} violation signature(s), {} known finding(s), {:.1}s",
        id,
        tier.name(),
        done_runs,
        hashes.len(),
        violations_reported,
        known_hit.len(),
        wall
    );
    if !harness_errors.is_empty() {
        for e in harness_errors.iter().take(20) {
            eprintln!("HARNESS-ERROR: {}", e);
        }
        // confirmed and replayed violations stand on their own; without any, a harness error means
        // the run proves nothing
        if exit != 1 {
            return 2;
        }
    }
    exit
}

fn tail(s: &str, n: usize) -> String {
    let lines: Vec<&str> = s.lines().collect();
    lines[lines.len().saturating_sub(n)..].join("\n")
}

pub fn wait_with_timeout(child: &mut std::process::Child, limit: Duration) -> std::io::Result<(std::process::ExitStatus, String, String, bool)> {
    use std::io::Read;
    let mut out = child.stdout.take();
    let mut err = child.stderr.take();
    let h_out = std::thread::spawn(move || {
        let mut s = String::new();
        if let Some(o) = out.as_mut() {
            let _ = o.read_to_string(&mut s);
        }
        s
    });
    let h_err = std::thread::spawn(move || {
        let mut s = String::new();
        if let Some(e) = err.as_mut() {
            let _ = e.read_to_string(&mut s);
        }
        s
    });
    let t0 = Instant::now();
    let mut timed_out = false;
    let status = loop {
        if let Some(st) = child.try_wait()? {
            break st;
        }
        if t0.elapsed() > limit {
            timed_out = true;
            let _ = child.kill();
            break child.wait()?;
        }
        std::thread::sleep(Duration::from_millis(10));
    };
    let o = h_out.join().unwrap_or_default();
    let e = h_err.join().unwrap_or_default();
    Ok((status, o, e, timed_out))
}

/// `pdfsim <id> --replay <file>`: prints `REPRODUCED <signature>` and exits 1 when the recorded
/// signature shows again; exits 0 when it does not.
pub fn replay_main(check: &mut dyn Check, ctx: &WorkerCtx, path: &str) -> i32 {
    let text = match std::fs::read_to_string(path) {
        Ok(t) => t,
        Err(e) => {
            eprintln!("HARNESS-ERROR: cannot read {}: {}", path, e);
            return 2;
        }
    };
    let j: J = match serde_json::from_str(&text) {
        Ok(j) => j,
        Err(e) => {
            eprintln!("HARNESS-ERROR: {} is not JSON: {}", path, e);
            return 2;
        }
    };
    let want = j.get("signature").and_then(|x| x.as_str()).unwrap_or("").to_string();
    let case = j.get("case").cloned().unwrap_or(J::Null);
    if case.get("kind").and_then(|x| x.as_str()) == Some("generated-document") {
        let family = case.get("family").and_then(|x| x.as_str()).unwrap_or("rich");
        let k = case.get("k").and_then(|x| x.as_u64()).unwrap_or(0);
        let seed = case.get("verif_seed").and_then(|x| x.as_u64()).unwrap_or(1);
        return if !crate::docs::generated_loads(&ctx.repo, seed, family, k) {
            println!("REPRODUCED {}", want);
            1
        } else {
            println!("NOT-REPRODUCED want '{}'", want);
            0
        };
    }
    if case.get("kind").and_then(|x| x.as_str()) == Some("run-index") {
        // fatal cases are replayed by run index in a child process so that the death is an observation
        let exe = std::env::current_exe().unwrap();
        let i = case.get("run").and_then(|x| x.as_u64()).unwrap_or(0);
        let seed = case.get("verif_seed").and_then(|x| x.as_u64()).unwrap_or(1);
        let tier = case.get("tier").and_then(|x| x.as_str()).unwrap_or("quick");
        let id = check.info().id;
        let limit = Duration::from_secs(check.info().per_run_timeout_s);
        let r = Command::new(exe)
            .args(["--worker", id, tier, &seed.to_string(), &i.to_string(), "1", &(i + 1).to_string()])
            .env("VERIF_ANNOUNCE", "1")
            .stdin(Stdio::null())
            .stdout(Stdio::piped())
            .stderr(Stdio::piped())
            .spawn()
            .and_then(|mut c| wait_with_timeout(&mut c, limit));
        return match r {
            Ok((st, _o, e, to)) => {
                let (sig, detail) = death_signature(&st, &e, i, to);
                if (!st.success() || to) && sig == want {
                    println!("REPRODUCED {}", sig);
                    println!("  {}", detail);
                    1
                } else {
                    println!("NOT-REPRODUCED want '{}' got '{}' (status {:?})", want, sig, st);
                    0
                }
            }
            Err(e) => {
                eprintln!("HARNESS-ERROR: {}", e);
                2
            }
        };
    }
    let vs = check.replay(ctx, &case);
    let mut hit = false;
    for v in &vs {
        if v.signature == want {
            println!("REPRODUCED {}", v.signature);
            println!("  {}", v.detail);
            hit = true;
        } else {
            println!("OTHER {}", v.signature);
        }
    }
    if hit {
        1
    } else {
        println!("NOT-REPRODUCED want '{}'", want);
        0
    }
}

pub fn unique_set<T: Ord + Clone>(xs: &[T]) -> BTreeSet<T> {
    xs.iter().cloned().collect()
}


/// `pdfsim selftest-determinism [n]`: every run's trace hash must be a pure function of
/// (VERIF_SEED, property, run index): n runs per property are executed with 1, 4 and 16 worker
/// processes (and a second time with 16) and the hashes compared. Any difference = exit 2.
pub fn determinism_selftest(ids: &[&str], n: u64, seed: u64) -> i32 {
    let exe = std::env::current_exe().expect("exe").to_string_lossy().to_string();
    let mut bad = 0;
    for id in ids {
        let mut maps: Vec<BTreeMap<u64, String>> = vec![];
        for w in [1u64, 4, 16, 16] {
            let children: Vec<_> = (0..w)
                .map(|k| {
                    Command::new(&exe)
                        .args(["--worker", id, "quick", &seed.to_string(), &k.to_string(), &w.to_string(), &n.to_string()])
                        .stdin(Stdio::null())
                        .stdout(Stdio::piped())
                        .stderr(Stdio::null())
                        .spawn()
                })
                .collect();
            let mut m = BTreeMap::new();
            for c in children {
                if let Ok(out) = c.and_then(|c| c.wait_with_output()) {
                    for line in String::from_utf8_lossy(&out.stdout).lines() {
                        if let Some(rest) = line.strip_prefix("DONE ") {
                            let mut r = rest.split(' ');
                            if let (Some(i), Some(h)) = (r.next().and_then(|x| x.parse::<u64>().ok()), r.next()) {
                                m.insert(i, h.to_string());
                            }
                        }
                    }
                }
            }
            maps.push(m);
        }
        let complete = maps.iter().all(|m| m.len() as u64 == n);
        let same = maps.windows(2).all(|p| p[0] == p[1]);
        let distinct: BTreeSet<&String> = maps[0].values().collect();
        println!("{}: {} runs x worker counts [1, 4, 16, 16]: complete={} identical={} distinct trace hashes={}", id, n, complete, same, distinct.len());
        if !complete || !same {
            for (i, h) in &maps[0] {
                for (k, m) in maps.iter().enumerate().skip(1) {
                    if m.get(i) != Some(h) {
                        println!("  run {}: {} vs {:?} (configuration {})", i, h, m.get(i), k);
                    }
                }
            }
            bad += 1;
        }
    }
    if bad > 0 {
        eprintln!("HARNESS-ERROR: nondeterministic runs");
        2
    } else {
        0
    }
}
