//! C01 — reading corrupted storage never panics, aborts or hangs (DESIGN §4.5). What is simulated
//! is the medium: a valid document is stored, suffers a seeded sequence of at-rest faults, and is
//! then opened and walked through every read entry point under the resource meters.

use crate::docgen::{hex, unhex};
use crate::docs::{Doc, Pool};
use crate::families::Family;
use crate::framework::*;
use crate::rng::{run_seed, Hasher64, Rng};
use crate::walker::{walk, WalkCfg, WalkResult};
use serde_json::{json, Value as J};
use std::collections::BTreeMap;
use std::sync::Arc;

#[derive(Clone, Debug, PartialEq)]
pub enum Fault {
    BitFlip { pos: usize, bit: u8 },
    ByteSet { pos: usize, val: u8 },
    /// the medium ends here (EOF anywhere)
    Truncate { len: usize },
    SectorZero { sector: usize },
    SectorDup { from: usize, to: usize },
    SectorSwap { a: usize, b: usize },
    /// a range of another stored file lands in this one
    Splice { pos: usize, data: Vec<u8> },
    /// the k-th run of ASCII digits is replaced by a boundary number
    DigitRun { index: usize, text: String },
    JunkPrefix { data: Vec<u8> },
    /// token-aligned overwrite: the k-th hexadecimal string token `<..>` is replaced
    HexToken { index: usize, text: String },
    /// token-aligned overwrite: the k-th name token `/..` is replaced
    NameToken { index: usize, text: String },
    /// the k-th string token (literal or hexadecimal) is rewritten with another length (cut, or
    /// extended with `fill`); the classic cross-reference table and startxref behind it are shifted
    /// so that the rest of the document stays readable
    StringResize { index: usize, len: usize, fill: u8 },
}

const SECTOR: usize = 512;

impl Fault {
    pub fn kind(&self) -> &'static str {
        match self {
            Fault::BitFlip { .. } => "bitflip",
            Fault::ByteSet { .. } => "byteset",
            Fault::Truncate { .. } => "truncate",
            Fault::SectorZero { .. } => "sector_zero",
            Fault::SectorDup { .. } => "sector_dup",
            Fault::SectorSwap { .. } => "sector_swap",
            Fault::Splice { .. } => "splice",
            Fault::DigitRun { .. } => "digitrun",
            Fault::JunkPrefix { .. } => "junk_prefix",
            Fault::HexToken { .. } => "hex_token",
            Fault::NameToken { .. } => "name_token",
            Fault::StringResize { .. } => "string_resize",
        }
    }
    pub fn apply(&self, b: &mut Vec<u8>) -> bool {
        match self {
            Fault::BitFlip { pos, bit } => {
                if *pos < b.len() {
                    b[*pos] ^= 1 << (bit % 8);
                    return true;
                }
                false
            }
            Fault::ByteSet { pos, val } => {
                if *pos < b.len() && b[*pos] != *val {
                    b[*pos] = *val;
                    return true;
                }
                false
            }
            Fault::Truncate { len } => {
                if *len < b.len() {
                    b.truncate(*len);
                    return true;
                }
                false
            }
            Fault::SectorZero { sector } => {
                let s = sector * SECTOR;
                if s < b.len() {
                    let e = (s + SECTOR).min(b.len());
                    b[s..e].iter_mut().for_each(|x| *x = 0);
                    return true;
                }
                false
            }
            Fault::SectorDup { from, to } => {
                let (f, t) = (from * SECTOR, to * SECTOR);
                if f < b.len() && t < b.len() && f != t {
                    let n = SECTOR.min(b.len() - f).min(b.len() - t);
                    let src = b[f..f + n].to_vec();
                    b[t..t + n].copy_from_slice(&src);
                    return true;
                }
                false
            }
            Fault::SectorSwap { a, b: bb } => {
                let (x, y) = (a * SECTOR, bb * SECTOR);
                if x < b.len() && y < b.len() && x != y {
                    let n = SECTOR.min(b.len() - x).min(b.len() - y);
                    for i in 0..n {
                        b.swap(x + i, y + i);
                    }
                    return true;
                }
                false
            }
            Fault::Splice { pos, data } => {
                if *pos < b.len() {
                    let n = data.len().min(b.len() - pos);
                    b[*pos..*pos + n].copy_from_slice(&data[..n]);
                    return n > 0;
                }
                false
            }
            Fault::DigitRun { index, text } => {
                let mut runs = vec![];
                let mut i = 0;
                while i < b.len() {
                    if b[i].is_ascii_digit() {
                        let s = i;
                        while i < b.len() && b[i].is_ascii_digit() {
                            i += 1;
                        }
                        runs.push((s, i));
                    } else {
                        i += 1;
                    }
                }
                if runs.is_empty() {
                    return false;
                }
                let (s, e) = runs[index % runs.len()];
                b.splice(s..e, text.bytes());
                let _ = e;
                true
            }
            Fault::JunkPrefix { data } => {
                let mut n = data.clone();
                n.extend_from_slice(b);
                *b = n;
                true
            }
            Fault::HexToken { index, text } => {
                let mut toks = vec![];
                let mut i = 0;
                while i + 1 < b.len() {
                    if b[i] == b'<' && b[i + 1] != b'<' && (i == 0 || b[i - 1] != b'<') {
                        if let Some(e) = b[i..].iter().take(200).position(|&c| c == b'>') {
                            if b[i + 1..i + e].iter().all(|c| c.is_ascii_hexdigit() || c.is_ascii_whitespace()) {
                                toks.push((i, i + e + 1));
                                i += e;
                            }
                        }
                    }
                    i += 1;
                }
                if toks.is_empty() {
                    return false;
                }
                let (s, e) = toks[index % toks.len()];
                // keep the length where possible (white space after the token), so that offsets and
                // stream lengths around it stay valid and the overwritten token is actually reached
                let mut t = text.clone().into_bytes();
                while t.len() < e - s {
                    t.push(b' ');
                }
                b.splice(s..e, t);
                true
            }
            Fault::NameToken { index, text } => {
                let mut toks = vec![];
                let mut i = 0;
                while i < b.len() {
                    if b[i] == b'/' {
                        let s = i;
                        i += 1;
                        while i < b.len() && !b" \t\r\n\x0c\x00/<>[](){}%".contains(&b[i]) {
                            i += 1;
                        }
                        if i - s > 1 && i - s < 40 {
                            toks.push((s, i));
                        }
                    } else {
                        i += 1;
                    }
                }
                if toks.is_empty() {
                    return false;
                }
                let (s, e) = toks[index % toks.len()];
                let mut t = text.clone().into_bytes();
                while t.len() < e - s {
                    t.push(b' ');
                }
                b.splice(s..e, t);
                true
            }
            Fault::StringResize { index, len, fill } => {
                let toks = string_tokens(b);
                if toks.is_empty() {
                    return false;
                }
                let (s, e, mut content) = toks[index % toks.len()].clone();
                content.resize(*len, *fill);
                let text = format!("<{}>", hex(&content)).into_bytes();
                let delta = text.len() as i64 - (e - s) as i64;
                b.splice(s..e, text);
                shift_offsets(b, s, delta);
                true
            }
        }
    }
    pub fn to_json(&self) -> J {
        match self {
            Fault::BitFlip { pos, bit } => json!({"kind": "bitflip", "pos": pos, "bit": bit}),
            Fault::ByteSet { pos, val } => json!({"kind": "byteset", "pos": pos, "val": val}),
            Fault::Truncate { len } => json!({"kind": "truncate", "len": len}),
            Fault::SectorZero { sector } => json!({"kind": "sector_zero", "sector": sector}),
            Fault::SectorDup { from, to } => json!({"kind": "sector_dup", "from": from, "to": to}),
            Fault::SectorSwap { a, b } => json!({"kind": "sector_swap", "a": a, "b": b}),
            Fault::Splice { pos, data } => json!({"kind": "splice", "pos": pos, "data": hex(data)}),
            Fault::DigitRun { index, text } => json!({"kind": "digitrun", "index": index, "text": text}),
            Fault::JunkPrefix { data } => json!({"kind": "junk_prefix", "data": hex(data)}),
            Fault::HexToken { index, text } => json!({"kind": "hex_token", "index": index, "text": text}),
            Fault::NameToken { index, text } => json!({"kind": "name_token", "index": index, "text": text}),
            Fault::StringResize { index, len, fill } => json!({"kind": "string_resize", "index": index, "len": len, "fill": fill}),
        }
    }
    pub fn from_json(j: &J) -> Option<Fault> {
        let u = |k: &str| j.get(k).and_then(|x| x.as_u64()).map(|x| x as usize);
        Some(match j.get("kind")?.as_str()? {
            "bitflip" => Fault::BitFlip { pos: u("pos")?, bit: u("bit")? as u8 },
            "byteset" => Fault::ByteSet { pos: u("pos")?, val: u("val")? as u8 },
            "truncate" => Fault::Truncate { len: u("len")? },
            "sector_zero" => Fault::SectorZero { sector: u("sector")? },
            "sector_dup" => Fault::SectorDup { from: u("from")?, to: u("to")? },
            "sector_swap" => Fault::SectorSwap { a: u("a")?, b: u("b")? },
            "splice" => Fault::Splice { pos: u("pos")?, data: unhex(j.get("data")?.as_str()?)? },
            "digitrun" => Fault::DigitRun { index: u("index")?, text: j.get("text")?.as_str()?.to_string() },
            "junk_prefix" => Fault::JunkPrefix { data: unhex(j.get("data")?.as_str()?)? },
            "hex_token" => Fault::HexToken { index: u("index")?, text: j.get("text")?.as_str()?.to_string() },
            "name_token" => Fault::NameToken { index: u("index")?, text: j.get("text")?.as_str()?.to_string() },
            "string_resize" => Fault::StringResize { index: u("index")?, len: u("len")?, fill: u("fill")? as u8 },
            _ => return None,
        })
    }
}

/// String tokens outside stream data: (start, end, decoded content).
pub fn string_tokens(b: &[u8]) -> Vec<(usize, usize, Vec<u8>)> {
    let mut toks = vec![];
    let mut i = 0;
    while i < b.len() {
        match b[i] {
            b'(' => {
                let s = i;
                let mut depth = 0usize;
                let mut out = vec![];
                let mut ok = false;
                while i < b.len() && i - s < 4000 {
                    let c = b[i];
                    i += 1;
                    match c {
                        b'(' => {
                            depth += 1;
                            if depth > 1 {
                                out.push(c);
                            }
                        }
                        b')' => {
                            depth -= 1;
                            if depth == 0 {
                                ok = true;
                                break;
                            }
                            out.push(c);
                        }
                        b'\\' if i < b.len() => {
                            let e = b[i];
                            i += 1;
                            match e {
                                b'n' => out.push(b'\n'),
                                b'r' => out.push(b'\r'),
                                b't' => out.push(b'\t'),
                                b'b' => out.push(8),
                                b'f' => out.push(12),
                                b'0'..=b'7' => {
                                    let mut v = (e - b'0') as u32;
                                    let mut n = 1;
                                    while n < 3 && i < b.len() && (b'0'..=b'7').contains(&b[i]) {
                                        v = v * 8 + (b[i] - b'0') as u32;
                                        i += 1;
                                        n += 1;
                                    }
                                    out.push(v as u8);
                                }
                                b'\r' => {
                                    if i < b.len() && b[i] == b'\n' {
                                        i += 1;
                                    }
                                }
                                b'\n' => {}
                                other => out.push(other),
                            }
                        }
                        other => out.push(other),
                    }
                }
                if ok {
                    toks.push((s, i, out));
                }
            }
            b'<' if i + 1 < b.len() && b[i + 1] != b'<' && (i == 0 || b[i - 1] != b'<') => {
                if let Some(e) = b[i..].iter().take(4000).position(|&c| c == b'>') {
                    let inner: Vec<u8> = b[i + 1..i + e].iter().copied().filter(|c| !c.is_ascii_whitespace()).collect();
                    if inner.iter().all(|c| c.is_ascii_hexdigit()) {
                        let mut h = String::from_utf8(inner).unwrap();
                        if h.len() % 2 == 1 {
                            h.push('0');
                        }
                        if let Some(content) = unhex(&h) {
                            toks.push((i, i + e + 1, content));
                            i += e;
                        }
                    }
                }
                i += 1;
            }
            // stream data is not text
            b's' if b[i..].starts_with(b"stream") && !(i >= 3 && &b[i - 3..i] == b"end") => match find(&b[i..], b"endstream") {
                Some(k) => i += k + 9,
                None => break,
            },
            _ => i += 1,
        }
    }
    toks
}

fn find(h: &[u8], n: &[u8]) -> Option<usize> {
    h.windows(n.len()).position(|w| w == n)
}
fn rfind(h: &[u8], n: &[u8]) -> Option<usize> {
    h.windows(n.len()).rposition(|w| w == n)
}

/// Everything behind `pos` moved by `delta`: shift the offsets of a classic cross-reference table and
/// startxref (documents with cross-reference streams are left as they are: one more fault).
pub fn shift_offsets(b: &mut Vec<u8>, pos: usize, delta: i64) {
    if delta == 0 {
        return;
    }
    let sx = match rfind(b, b"startxref") {
        Some(k) => k,
        None => return,
    };
    let mut i = sx + 9;
    while i < b.len() && b[i].is_ascii_whitespace() {
        i += 1;
    }
    let ds = i;
    while i < b.len() && b[i].is_ascii_digit() {
        i += 1;
    }
    let old: i64 = match std::str::from_utf8(&b[ds..i]).ok().and_then(|s| s.parse().ok()) {
        Some(v) => v,
        None => return,
    };
    // startxref holds the position before the change if it is in front of it, else it is stale
    let table = if old as usize > pos { old + delta } else { old };
    b.splice(ds..i, table.to_string().bytes());
    let mut i = table as usize;
    if i + 4 > b.len() || &b[i..i + 4] != b"xref" {
        return;
    }
    i += 4;
    loop {
        while i < b.len() && b[i].is_ascii_whitespace() {
            i += 1;
        }
        // subsection header "first count"
        let hs = i;
        while i < b.len() && b[i].is_ascii_digit() {
            i += 1;
        }
        if i == hs || i >= b.len() || b[i] != b' ' {
            return;
        }
        i += 1;
        let cs = i;
        while i < b.len() && b[i].is_ascii_digit() {
            i += 1;
        }
        let count: usize = match std::str::from_utf8(&b[cs..i]).ok().and_then(|s| s.parse().ok()) {
            Some(v) => v,
            None => return,
        };
        while i < b.len() && b[i].is_ascii_whitespace() {
            i += 1;
        }
        for _ in 0..count.min(100_000) {
            if i + 18 > b.len() || !b[i..i + 10].iter().all(|c| c.is_ascii_digit()) {
                return;
            }
            let off: i64 = std::str::from_utf8(&b[i..i + 10]).unwrap().parse().unwrap();
            if b[i + 17] == b'n' && off as usize > pos {
                let t = format!("{:010}", off + delta);
                b[i..i + 10].copy_from_slice(&t.as_bytes()[..10]);
            }
            i += 20;
        }
    }
}

#[derive(Clone)]
pub struct Case {
    pub doc: Arc<Doc>,
    pub faults: Vec<Fault>,
    pub cfg: WalkCfg,
    /// the password given to the library when it is not the document's own
    pub pw: Option<Vec<u8>>,
}
impl Case {
    pub fn to_json(&self, property: &str) -> J {
        json!({"property": property, "doc": self.doc.to_json(), "faults": self.faults.iter().map(|f| f.to_json()).collect::<Vec<_>>(),
            "tolerant": self.cfg.tolerant, "cached": self.cfg.cached, "stack": self.cfg.stack, "password_given": self.pw.as_ref().map(|p| hex(p))})
    }
    pub fn from_json(j: &J, repo: &str) -> Option<Case> {
        Some(Case {
            doc: Arc::new(Doc::from_json(j.get("doc")?, repo)?),
            faults: j.get("faults")?.as_array()?.iter().filter_map(Fault::from_json).collect(),
            cfg: WalkCfg { tolerant: j.get("tolerant")?.as_bool()?, cached: j.get("cached")?.as_bool()?, stack: j.get("stack")?.as_u64()? as usize },
            pw: j.get("password_given").and_then(|p| p.as_str()).and_then(unhex),
        })
    }
    pub fn medium(&self) -> (Vec<u8>, Vec<&'static str>) {
        let mut b = self.doc.bytes.to_vec();
        let mut fired = vec![];
        for f in &self.faults {
            if f.apply(&mut b) {
                fired.push(f.kind());
            }
        }
        (b, fired)
    }
    pub fn password(&self) -> &[u8] {
        self.pw.as_deref().unwrap_or(&self.doc.password)
    }
}

const PASSWORDS: [&[u8]; 4] = [b"userpassword", b"ownerpassword", b"", b"wrong"];
const STRING_LENGTHS: [usize; 19] = [0, 1, 15, 16, 31, 32, 33, 47, 48, 49, 127, 128, 176, 177, 200, 255, 256, 1000, 5000];

pub fn verdicts(r: &WalkResult) -> Vec<(String, String)> {
    let mut v = vec![];
    for (call, p) in &r.panics {
        v.push((format!("panic: {}", panic_signature(p)), format!("in {}: {}", call, p)));
    }
    for (m, call, d) in &r.meters {
        v.push((format!("meter: {} exceeded", m), format!("in {}: {}", call, d)));
    }
    v
}

pub const CONFIGS: [(bool, bool, usize); 4] = [(false, false, 2 << 20), (true, true, 2 << 20), (false, true, 8 << 20), (true, false, 8 << 20)];

pub struct C01 {
    pool: Option<Pool>,
    docs: Vec<Arc<Doc>>,
    small: Vec<usize>,
    enum_starts: Vec<u64>,
    /// truncation / bit flip cases
    enum_bytes: u64,
    /// encrypted corpus documents x string token x new length x password given
    enc_cases: Vec<(usize, usize, usize, usize)>,
    enc_docs: Vec<usize>,
    enum_total: u64,
    base_outcome: BTreeMap<(String, usize), u64>,
    prepared: Option<Tier>,
}

impl C01 {
    pub fn new() -> C01 {
        C01 { pool: None, docs: vec![], small: vec![], enum_starts: vec![], enum_bytes: 0, enc_cases: vec![], enc_docs: vec![], enum_total: 0, base_outcome: BTreeMap::new(), prepared: None }
    }
    fn prepare(&mut self, repo: &str, seed: u64, tier: Tier) {
        if self.prepared == Some(tier) {
            return;
        }
        let mut pool = Pool::new(repo, seed);
        let mut docs = vec![];
        for k in 0..pool.corpus_len() {
            if let Some(d) = pool.corpus(k) {
                docs.push(d);
            }
        }
        let n_gen = if tier == Tier::Quick { 12 } else { 48 };
        for k in 0..n_gen {
            docs.push(pool.generated(&Family::Rich, k));
        }
        for k in 0..(if tier == Tier::Quick { 4 } else { 16 }) {
            docs.push(pool.generated(&Family::RichEncrypted, k));
        }
        docs.push(pool.generated(&Family::TwoLeaf, 0));
        docs.push(pool.generated(&Family::TwoLeaf, 1));
        docs.push(pool.generated(&Family::DeepTree, 0));
        docs.push(pool.generated(&Family::CyclicParents, 0));
        // complete single-fault enumeration targets: small documents
        let mut small: Vec<usize> = (0..docs.len()).filter(|&i| docs[i].bytes.len() <= 4096).collect();
        if tier == Tier::Quick {
            small.truncate(3);
        }
        let mut starts = vec![];
        let mut total = 0u64;
        for &i in &small {
            starts.push(total);
            let n = docs[i].bytes.len() as u64;
            // every truncation point (quick + thorough); every single-bit flip (thorough)
            total += if tier == Tier::Quick { n } else { n + 8 * n };
        }
        let enc_docs: Vec<usize> = (0..docs.len()).filter(|&i| !docs[i].password.is_empty()).collect();
        let mut enc_cases = vec![];
        for &d in &enc_docs {
            let n = string_tokens(&docs[d].bytes).len();
            for t in 0..n {
                for l in 0..STRING_LENGTHS.len() {
                    for p in 0..PASSWORDS.len() {
                        enc_cases.push((d, t, l, p));
                    }
                }
            }
        }
        self.pool = Some(pool);
        self.docs = docs;
        self.small = small;
        self.enum_starts = starts;
        self.enum_bytes = total;
        self.enum_total = total + enc_cases.len() as u64;
        self.enc_cases = enc_cases;
        self.enc_docs = enc_docs;
        self.prepared = Some(tier);
    }
    fn random_runs(tier: Tier) -> u64 {
        match tier {
            Tier::Quick => 150_000,
            Tier::Thorough => 5_000_000,
        }
    }
    fn enum_case(&self, i: u64) -> Case {
        if i >= self.enum_bytes {
            let (d, t, l, p) = self.enc_cases[(i - self.enum_bytes) as usize];
            let c = CONFIGS[(i % 4) as usize];
            return Case {
                doc: self.docs[d].clone(),
                faults: vec![Fault::StringResize { index: t, len: STRING_LENGTHS[l], fill: 0 }],
                cfg: WalkCfg { tolerant: c.0, cached: c.1, stack: c.2 },
                pw: Some(PASSWORDS[p].to_vec()),
            };
        }
        let idx = match self.enum_starts.binary_search(&i) {
            Ok(k) => k,
            Err(k) => k - 1,
        };
        let doc = self.docs[self.small[idx]].clone();
        let r = i - self.enum_starts[idx];
        let n = doc.bytes.len() as u64;
        let fault = if r < n { Fault::Truncate { len: r as usize } } else { Fault::BitFlip { pos: ((r - n) / 8) as usize, bit: ((r - n) % 8) as u8 } };
        let c = CONFIGS[(i % 4) as usize];
        Case { doc, faults: vec![fault], cfg: WalkCfg { tolerant: c.0, cached: c.1, stack: c.2 }, pw: None }
    }
    fn random_fault(&self, rng: &mut Rng, doc: &Doc) -> Fault {
        let n = doc.bytes.len().max(1);
        let sectors = (n + SECTOR - 1) / SECTOR;
        match rng.below(21) {
            19 | 20 => Fault::StringResize { index: rng.usize(4096), len: *rng.pick(&STRING_LENGTHS), fill: *rng.pick(&[0u8, 0xff, b'A']) },
            16 | 17 => Fault::HexToken { index: rng.usize(4096), text: rng.pick(&["<>", "<0>", "<FFFFFFFFFF>", "<00>", "< >", "<0000", "<D800>", "<FFFF>"]).to_string() },
            18 => Fault::NameToken { index: rng.usize(4096), text: rng.pick(&["/", "/#", "/A#4", "/Identity", "/Type", "/#00", "/DeviceN", "/Pattern", "/Indexed"]).to_string() },
            0..=3 => Fault::BitFlip { pos: rng.usize(n), bit: rng.below(8) as u8 },
            4..=6 => Fault::ByteSet { pos: rng.usize(n), val: *rng.pick(&[0u8, 0xff, b' ', b'0', b'9', b'<', b'>', b'[', b'(', b'/', b'R', b'-', b'\n']) },
            7 | 8 => Fault::Truncate { len: if rng.coin() { rng.usize(n) } else { n - 1 - rng.usize(n.min(64)) } },
            9 => Fault::SectorZero { sector: rng.usize(sectors) },
            10 => Fault::SectorDup { from: rng.usize(sectors), to: rng.usize(sectors) },
            11 => Fault::SectorSwap { a: rng.usize(sectors), b: rng.usize(sectors) },
            12 => {
                let other = &self.docs[rng.usize(self.docs.len())];
                let m = other.bytes.len().max(1);
                let s = rng.usize(m);
                let l = 1 + rng.usize(256.min(m - s));
                Fault::Splice { pos: rng.usize(n), data: other.bytes[s..s + l].to_vec() }
            }
            13 | 14 => Fault::DigitRun { index: rng.usize(4096), text: rng.pick(&["0", "1", "2", "-1", "2147483647", "2147483648", "4294967295", "4294967296", "18446744073709551615", "99999999999999999999", "65535", "65536"]).to_string() },
            _ => Fault::JunkPrefix { data: (0..rng.usize(1100)).map(|_| *rng.pick(b"junk %\n\r\x00\xff")).collect() },
        }
    }
    fn random_case(&self, ctx: &WorkerCtx, i: u64) -> Case {
        let mut rng = Rng::new(run_seed(ctx.verif_seed, "C01", i));
        let mut doc = self.docs[rng.usize(self.docs.len())].clone();
        // large corpus files are expensive to walk: they get a smaller share
        if doc.bytes.len() > 100_000 && !rng.chance(1, 6) {
            doc = self.docs[rng.usize(self.docs.len())].clone();
        }
        // the few encrypted documents get a share of their own, and not always their own password
        let mut pw = None;
        if !self.enc_docs.is_empty() && rng.chance(1, 12) {
            doc = self.docs[*rng.pick(&self.enc_docs)].clone();
        }
        if !doc.password.is_empty() && rng.chance(1, 3) {
            pw = Some(rng.pick(&PASSWORDS).to_vec());
        }
        let k = match rng.below(10) {
            0..=5 => 1,
            6..=8 => 2,
            _ => 3 + rng.usize(3),
        };
        let faults = (0..k).map(|_| self.random_fault(&mut rng, &doc)).collect();
        let c = CONFIGS[rng.usize(4)];
        Case { doc, faults, cfg: WalkCfg { tolerant: c.0, cached: c.1, stack: c.2 }, pw }
    }
    fn shrink(&self, case: &Case, sig: &str) -> Case {
        let mut best = case.clone();
        let mut budget = 40;
        let mut progress = true;
        while progress && budget > 0 && best.faults.len() > 1 {
            progress = false;
            for k in 0..best.faults.len() {
                let mut c = best.clone();
                c.faults.remove(k);
                budget -= 1;
                let (b, _) = c.medium();
                let r = walk(&b, c.password(), c.cfg, None);
                if verdicts(&r).iter().any(|(s, _)| s == sig) {
                    best = c;
                    progress = true;
                    break;
                }
                if budget <= 0 {
                    break;
                }
            }
        }
        best
    }
}

impl Check for C01 {
    fn info(&self) -> CheckInfo {
        CheckInfo {
            id: "C01",
            level: "fault_enumeration",
            rule: "one case = a valid stored document (corpus incl. encrypted files opened with their passwords, and generated documents) + a sequence of at-rest storage faults applied before open (bit flip, byte set, truncation/EOF anywhere, 512-byte sector zeroed / duplicated / swapped, splice from another stored file, digit run replaced by a boundary number, junk prefix, token-aligned overwrite of a hexadecimal string or name token, a string token rewritten with another length with the classic cross-reference table shifted behind it) + for encrypted documents the password given (their user password, their owner password, the empty one, a wrong one) + {strict, tolerant} x {cached, uncached} x {2 MiB, 8 MiB stack}; the walker makes every read call (load, pages and inherited attributes, resources, fonts with widths / ToUnicode / embedded data, images raw and decoded, forms, content operators, functions and colour spaces, name and number trees, outlines, every object below /Size raw and typed, recovery scan; when the document does not open, the recovery scan over the bare storage), each under catch_unwind, under allocation / work meters, in a worker process whose death is observed. Enumerated part: every truncation point (quick: 3 small documents; thorough: all documents <= 4 KiB) and every single-bit flip (thorough), and for the encrypted corpus files every string token x 19 lengths x 4 passwords (both tiers). Non-trivial = the fault changed the outcome (Ok/Err pattern of the calls) relative to the unfaulted document; distinct = hash of (document, faults, configuration)",
            assumptions: vec![
                "covers 'valid file + storage faults', not all byte strings and not texts produced by a PDF grammar (the other half of the property's quantifier)".into(),
                "resource bound: peak live bytes <= 64 MiB + 64 x (input + bytes produced by stream filters), allocation calls <= 2e6 + 2000 x the same, single request <= 256 MiB and live bytes <= 512 MiB (hard caps: the request is refused, the process aborts, the supervisor observes it), log events <= 1e6 + 1000 x input, 20 s wall clock per case as backstop".into(),
                "after a panic in a cached configuration the walk of that case stops (the stuck in-process cache entry would block later readers for real)".into(),
                "objects are walked by number up to 400, pages up to 6, scan up to 3000 items".into(),
            ],
            components_real: vec!["pdf crate (all of it, incl. decryption and all stream filters)", "globalcache SyncCache", "process allocator (metered) and thread stacks of the stated sizes"],
            components_stub: vec![],
            per_run_timeout_s: 20,
            required_probes: vec!["fault_bitflip", "fault_truncate", "fault_sector_zero", "fault_sector_dup", "fault_sector_swap", "fault_splice", "fault_digitrun", "fault_junk_prefix", "fault_byteset", "fault_hex_token", "fault_name_token", "fault_string_resize", "opened_with_another_password", "outcome_changed"],
            exhaustive: false,
        }
    }
    fn total_runs(&self, tier: Tier) -> u64 {
        let repo = std::env::var("PDF_REPO").unwrap_or_else(|_| "/repo".into());
        let seed = std::env::var("VERIF_SEED").ok().and_then(|s| s.parse().ok()).unwrap_or(1);
        let mut me = C01::new();
        me.prepare(&repo, seed, tier);
        me.enum_total + Self::random_runs(tier)
    }
    fn run(&mut self, ctx: &WorkerCtx, i: u64) -> RunReport {
        self.prepare(&ctx.repo, ctx.verif_seed, ctx.tier);
        let mut rep = RunReport::default();
        let case = if i < self.enum_total {
            rep.count("enumerated_cases", 1);
            self.enum_case(i)
        } else {
            self.random_case(ctx, i - self.enum_total)
        };
        let (bytes, fired) = case.medium();
        for k in &fired {
            rep.count(&format!("fault_{}", k), 1);
        }
        let cfg_idx = CONFIGS.iter().position(|c| *c == (case.cfg.tolerant, case.cfg.cached, case.cfg.stack)).unwrap_or(0);
        let base_key = (case.doc.label.clone(), cfg_idx);
        if !self.base_outcome.contains_key(&base_key) {
            let r = walk(&case.doc.bytes, &case.doc.password, case.cfg, None);
            // the unfaulted documents must walk cleanly, otherwise that is reported too
            for (sig, detail) in verdicts(&r) {
                let c = Case { doc: case.doc.clone(), faults: vec![], cfg: case.cfg, pw: None };
                rep.violations.push(Violation { signature: sig, detail, case: c.to_json("C01") });
            }
            self.base_outcome.insert(base_key.clone(), r.outcome);
        }
        let r = walk(&bytes, case.password(), case.cfg, None);
        if case.pw.is_some() {
            rep.count("opened_with_another_password", 1);
        }
        let mut h = Hasher64::new();
        h.str(&case.doc.label);
        h.str(&format!("{:?} {:?}", case.faults, case.pw));
        h.u64(cfg_idx as u64);
        // the outcome (Ok/Err pattern of all calls, panics, meters) is part of the trace: the
        // determinism self-check compares it across processes
        h.u64(r.outcome);
        h.u64(r.calls);
        h.u64(r.panics.len() as u64 + 1000 * r.meters.len() as u64);
        rep.trace_hash = h.finish();
        rep.nontrivial = !fired.is_empty() && r.outcome != self.base_outcome[&base_key];
        if rep.nontrivial {
            rep.count("outcome_changed", 1);
        }
        if r.loaded {
            rep.count("loaded_despite_faults", 1);
        }
        rep.count("walker_calls", r.calls);
        rep.count("log_events", r.events);
        rep.count("decoded_bytes", r.decoded);
        rep.count("alloc_calls", r.alloc_calls);
        for (sig, detail) in verdicts(&r) {
            let c = self.shrink(&case, &sig);
            rep.violations.push(Violation { signature: sig, detail, case: c.to_json("C01") });
        }
        if i % 20011 == 0 {
            rep.sample = Some(json!({"run": i, "doc": case.doc.label, "faults": case.faults.iter().map(|f| f.to_json()).collect::<Vec<_>>(), "tolerant": case.cfg.tolerant, "cached": case.cfg.cached, "stack": case.cfg.stack, "loaded": r.loaded, "calls": r.calls}));
        }
        rep
    }
    fn describe(&mut self, ctx: &WorkerCtx, i: u64) -> J {
        self.prepare(&ctx.repo, ctx.verif_seed, ctx.tier);
        let case = if i < self.enum_total { self.enum_case(i) } else { self.random_case(ctx, i - self.enum_total) };
        let mut j = case.to_json("C01");
        if let Some(d) = j.get_mut("doc") {
            if d.get("bytes").is_some() {
                d["bytes"] = json!("...");
            }
        }
        j
    }
    fn replay(&mut self, ctx: &WorkerCtx, case: &J) -> Vec<Violation> {
        let c = match Case::from_json(case, &ctx.repo) {
            Some(c) => c,
            None => return vec![],
        };
        let (bytes, _) = c.medium();
        let r = walk(&bytes, c.password(), c.cfg, None);
        verdicts(&r).into_iter().map(|(s, d)| Violation { signature: s, detail: d, case: case.clone() }).collect()
    }
}
