//! Document pool: corpus files from $PDF_REPO/files and generated families, with inventory.

use crate::families::{self, Family};
use crate::ops::{self, Inventory};
use crate::rng::{run_seed, Rng};
use serde_json::{json, Value as J};
use std::collections::BTreeMap;
use std::sync::Arc;

#[derive(Clone, Debug)]
pub struct Doc {
    pub label: String,
    pub bytes: Arc<Vec<u8>>,
    pub password: Vec<u8>,
    pub inv: Inventory,
    pub family: String,
}

impl Doc {
    pub fn from_bytes(label: &str, family: &str, bytes: Vec<u8>, password: &[u8]) -> Doc {
        let inv = ops::inventory(&bytes, password);
        Doc { label: label.to_string(), bytes: Arc::new(bytes), password: password.to_vec(), inv, family: family.to_string() }
    }
    /// JSON that lets a replay rebuild the document without the generator.
    pub fn to_json(&self) -> J {
        if self.family == "corpus" {
            json!({"corpus": self.label, "password": crate::docgen::hex(&self.password)})
        } else {
            json!({"family": self.family, "label": self.label, "bytes": crate::docgen::hex(&self.bytes)})
        }
    }
    pub fn from_json(j: &J, repo: &str) -> Option<Doc> {
        if let Some(name) = j.get("corpus").and_then(|x| x.as_str()) {
            let pw = crate::docgen::unhex(j.get("password")?.as_str()?)?;
            let bytes = std::fs::read(format!("{}/files/{}", repo, name)).ok()?;
            let mut d = Doc::from_bytes(name, "corpus", bytes, &pw);
            d.family = "corpus".into();
            Some(d)
        } else {
            let bytes = crate::docgen::unhex(j.get("bytes")?.as_str()?)?;
            Some(Doc::from_bytes(j.get("label")?.as_str()?, j.get("family")?.as_str()?, bytes, b""))
        }
    }
}

pub fn corpus_list(repo: &str) -> Vec<(String, Vec<u8>)> {
    let mut v: Vec<(String, Vec<u8>)> = vec![];
    let mut names: Vec<String> = std::fs::read_dir(format!("{}/files", repo))
        .map(|rd| rd.filter_map(|e| e.ok()).map(|e| e.file_name().to_string_lossy().to_string()).filter(|n| n.ends_with(".pdf")).collect())
        .unwrap_or_default();
    names.sort();
    for n in names {
        v.push((n, b"".to_vec()));
    }
    let mut pnames: Vec<String> = std::fs::read_dir(format!("{}/files/password_protected", repo))
        .map(|rd| rd.filter_map(|e| e.ok()).map(|e| e.file_name().to_string_lossy().to_string()).filter(|n| n.ends_with(".pdf")).collect())
        .unwrap_or_default();
    pnames.sort();
    for n in pnames {
        v.push((format!("password_protected/{}", n), b"userpassword".to_vec()));
    }
    v
}

/// generated documents (family, index, seed) that the library under test could not open
pub static BROKEN: std::sync::Mutex<Vec<(String, u64, u64)>> = std::sync::Mutex::new(Vec::new());

/// Does the library open generated document `k` of `family`? (replay of a BROKEN entry)
pub fn generated_loads(repo: &str, verif_seed: u64, family: &str, k: u64) -> bool {
    let fam = match family {
        "two_leaf" => Family::TwoLeaf,
        "cyclic_parents" => Family::CyclicParents,
        "deep_tree" => Family::DeepTree,
        "rich_encrypted" => Family::RichEncrypted,
        "dangling" => Family::Dangling,
        "shared_header" => Family::SharedHeader,
        "jbig_cycle" => Family::JbigCycle,
        "long_parents" => Family::LongParents,
        "icc_cycle" => Family::IccCycle,
        "self_kid" => Family::SelfKid,
        _ => Family::Rich,
    };
    let mut pool = Pool::new(repo, verif_seed);
    let d = pool.generated(&fam, k);
    BROKEN.lock().unwrap().clear();
    d.inv.loadable
}

pub struct Pool {
    repo: String,
    verif_seed: u64,
    corpus: Vec<(String, Vec<u8>)>,
    cache: BTreeMap<String, Arc<Doc>>,
}

impl Pool {
    pub fn new(repo: &str, verif_seed: u64) -> Pool {
        Pool { repo: repo.to_string(), verif_seed, corpus: corpus_list(repo), cache: BTreeMap::new() }
    }
    pub fn corpus_len(&self) -> usize {
        self.corpus.len()
    }
    pub fn corpus(&mut self, k: usize) -> Option<Arc<Doc>> {
        let (name, pw) = self.corpus.get(k)?.clone();
        let key = format!("corpus:{}", name);
        if let Some(d) = self.cache.get(&key) {
            return Some(d.clone());
        }
        let bytes = std::fs::read(format!("{}/files/{}", self.repo, name)).ok()?;
        let d = Arc::new(Doc::from_bytes(&name, "corpus", bytes, &pw));
        self.cache.insert(key, d.clone());
        Some(d)
    }
    pub fn generated(&mut self, family: &Family, k: u64) -> Arc<Doc> {
        let key = format!("{}:{}", family.name(), k);
        if let Some(d) = self.cache.get(&key) {
            return d.clone();
        }
        let mut rng = Rng::new(run_seed(self.verif_seed, &format!("doc/{}", family.name()), k));
        let spec = families::generate(family, &mut rng);
        let w = crate::docgen::write_doc(&spec);
        if let Err(e) = crate::docgen::self_check(&spec, &w) {
            eprintln!("HARNESS-ERROR: writer self-check failed for {}: {}", key, e);
            std::process::exit(2);
        }
        let mut bytes = w.bytes;
        if *family == Family::SharedHeader {
            families::shared_header_patch(&mut bytes);
        }
        let d = Arc::new(Doc::from_bytes(&key, family.name(), bytes, b""));
        if !d.inv.loadable {
            // the writer's output passed the strict reader: a library that cannot open it is what the
            // checks are about, not a harness error. Reported once per worker as a violation.
            BROKEN.lock().unwrap().push((family.name().to_string(), k, self.verif_seed));
        }
        self.cache.insert(key, d.clone());
        d
    }
}
