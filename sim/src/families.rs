//! Generated document families (typed content for the reader side). All written through the
//! harness's independent writer (docgen), never through pdf's serializer or encoders.

use crate::docgen::*;
use crate::rng::Rng;

fn rect(a: i64, b: i64, c: i64, d: i64) -> Val {
    Val::ints(&[a, b, c, d])
}

pub fn cmap_text(pairs: &[(u16, &str)], ranges: &[(u16, u16, u16)]) -> Vec<u8> {
    let mut s = String::new();
    s.push_str("/CIDInit /ProcSet findresource begin\n12 dict begin\nbegincmap\n/CMapName /Adobe-Identity-UCS def\n/CMapType 2 def\n1 begincodespacerange\n<0000> <FFFF>\nendcodespacerange\n");
    if !pairs.is_empty() {
        s.push_str(&format!("{} beginbfchar\n", pairs.len()));
        for (c, u) in pairs {
            let utf16: String = u.encode_utf16().map(|x| format!("{:04X}", x)).collect();
            s.push_str(&format!("<{:04X}> <{}>\n", c, utf16));
        }
        s.push_str("endbfchar\n");
    }
    if !ranges.is_empty() {
        s.push_str(&format!("{} beginbfrange\n", ranges.len()));
        for (a, b, u) in ranges {
            s.push_str(&format!("<{:04X}> <{:04X}> <{:04X}>\n", a, b, u));
        }
        s.push_str("endbfrange\n");
    }
    s.push_str("endcmap\nCMapName currentdict /CMap defineresource pop\nend\nend\n");
    s.into_bytes()
}

fn content_text(rng: &mut Rng, font: Option<&str>, xobjs: &[String]) -> Vec<u8> {
    let mut s = String::from("q\n1 0 0 1 10 20 cm\n");
    if let Some(f) = font {
        s.push_str(&format!("BT\n/{} 12 Tf\n10 700 Td\n(Hello {}) Tj\n[(A) -20 (B)] TJ\nET\n", f, rng.below(100)));
    }
    s.push_str("0.5 g\n10 10 100 50 re\nf\n1 0 0 RG\n0 0 m\n100 100 l\n50 20 30 40 10 5 c\nS\n");
    for x in xobjs {
        s.push_str(&format!("q\n50 0 0 50 100 100 cm\n/{} Do\nQ\n", x));
    }
    s.push_str("Q\n");
    s.into_bytes()
}

#[derive(Clone, Debug)]
pub struct RichOpts {
    pub pages: usize,
    pub depth: usize,
    pub fonts: bool,
    pub type0: bool,
    pub images: bool,
    pub forms: bool,
    pub names: bool,
    pub labels: bool,
    pub outlines: bool,
    pub acroform: bool,
    pub annots: bool,
    pub shared_resources: bool,
}

impl RichOpts {
    pub fn random(rng: &mut Rng) -> RichOpts {
        RichOpts {
            pages: 1 + rng.usize(5),
            depth: rng.usize(3),
            fonts: rng.chance(3, 4),
            type0: rng.chance(1, 2),
            images: rng.chance(3, 4),
            forms: rng.chance(1, 2),
            names: rng.chance(1, 2),
            labels: rng.chance(1, 2),
            outlines: rng.chance(1, 2),
            acroform: rng.chance(1, 3),
            annots: rng.chance(1, 2),
            shared_resources: rng.coin(),
        }
    }
    pub fn all() -> RichOpts {
        RichOpts { pages: 3, depth: 1, fonts: true, type0: true, images: true, forms: true, names: true, labels: true, outlines: true, acroform: true, annots: true, shared_resources: true }
    }
}

/// A document exercising most of the typed reader: nested page tree with inherited attributes,
/// simple and composite fonts with widths and ToUnicode, images with two-stage filter chains,
/// form XObjects, name tree, page labels, outlines, interactive form, annotations.
pub fn rich(rng: &mut Rng, o: &RichOpts, layout: &Layout) -> DocSpec {
    let mut b = Builder::new();
    let catalog = b.reserve();
    let pages_root = b.reserve();

    // --- shared resources --------------------------------------------------------------------
    let mut font_entries: Dict = vec![];
    if o.fonts {
        let tu = b.add_stream(vec![], cmap_text(&[(65, "A"), (66, "B"), (0x20AC, "\u{20AC}")], &[(0x30, 0x39, 0x0030)]));
        let fd = b.add(Val::dict(vec![
            ("Type", Val::name("FontDescriptor")),
            ("FontName", Val::name("Simple")),
            ("Flags", Val::Int(32)),
            ("FontBBox", rect(-100, -200, 1000, 900)),
            ("ItalicAngle", Val::Int(0)),
            ("Ascent", Val::Int(800)),
            ("Descent", Val::Int(-200)),
            ("CapHeight", Val::Int(700)),
            ("StemV", Val::Int(80)),
        ]));
        let first = 32 + rng.range(0, 8);
        let n = 4 + rng.range(0, 20);
        let widths: Vec<Val> = (0..n).map(|i| if i % 3 == 0 { Val::Real(250.5 + i as f64) } else { Val::Int(500 + 10 * i) }).collect();
        let f1 = b.add(Val::dict(vec![
            ("Type", Val::name("Font")),
            ("Subtype", Val::name(if rng.coin() { "Type1" } else { "TrueType" })),
            ("BaseFont", Val::name("Simple")),
            ("FirstChar", Val::Int(first)),
            ("LastChar", Val::Int(first + n - 1)),
            ("Widths", Val::Arr(widths)),
            ("FontDescriptor", Val::r(fd)),
            ("Encoding", Val::name("WinAnsiEncoding")),
            ("ToUnicode", Val::r(tu)),
        ]));
        font_entries.push(("F1".into(), Val::r(f1)));
        if o.type0 {
            let ff = b.add_stream(vec![("Length1".into(), Val::Int(12))], b"\x00\x01\x00\x00fontdata".to_vec());
            let fd2 = b.add(Val::dict(vec![
                ("Type", Val::name("FontDescriptor")),
                ("FontName", Val::name("Composite")),
                ("Flags", Val::Int(4)),
                ("FontBBox", rect(0, -200, 1000, 900)),
                ("ItalicAngle", Val::Int(0)),
                ("FontFile2", Val::r(ff)),
            ]));
            let warr = b.add(Val::ints(&[600, 610, 620]));
            let cid = b.add(Val::dict(vec![
                ("Type", Val::name("Font")),
                ("Subtype", Val::name("CIDFontType2")),
                ("BaseFont", Val::name("Composite")),
                ("CIDSystemInfo", Val::dict(vec![("Registry", Val::Str(b"Adobe".to_vec())), ("Ordering", Val::Str(b"Identity".to_vec())), ("Supplement", Val::Int(0))])),
                ("FontDescriptor", Val::r(fd2)),
                ("DW", Val::Int(900)),
                (
                    "W",
                    Val::Arr(vec![Val::Int(1), Val::Arr(vec![Val::Int(500), Val::Real(512.5)]), Val::Int(10), Val::Int(20), Val::Int(700), Val::Int(40), Val::r(warr)]),
                ),
                ("CIDToGIDMap", Val::name("Identity")),
            ]));
            let tu2 = b.add_stream(vec![], cmap_text(&[(1, "x"), (2, "\u{1F600}")], &[]));
            let f2 = b.add(Val::dict(vec![
                ("Type", Val::name("Font")),
                ("Subtype", Val::name("Type0")),
                ("BaseFont", Val::name("Composite")),
                ("Encoding", Val::name("Identity-H")),
                ("DescendantFonts", Val::Arr(vec![Val::r(cid)])),
                ("ToUnicode", Val::r(tu2)),
            ]));
            font_entries.push(("F2".into(), Val::r(f2)));
        }
    }
    let mut xobj_entries: Dict = vec![];
    if o.images {
        // 4x2 gray image, stored as ASCIIHex( zlib-stored( pixels ) ): two filter stages, the last
        // one being the "image codec" from raw_image_data's point of view
        let pixels: Vec<u8> = (0..8).map(|i| (i * 31 + rng.below(7) as usize) as u8).collect();
        let staged = ascii_hex(&zlib_stored(&pixels));
        let im1 = b.add_stream(
            vec![
                ("Type".into(), Val::name("XObject")),
                ("Subtype".into(), Val::name("Image")),
                ("Width".into(), Val::Int(4)),
                ("Height".into(), Val::Int(2)),
                ("ColorSpace".into(), Val::name("DeviceGray")),
                ("BitsPerComponent".into(), Val::Int(8)),
                ("Filter".into(), Val::Arr(vec![Val::name("ASCIIHexDecode"), Val::name("FlateDecode")])),
            ],
            staged,
        );
        xobj_entries.push(("Im1".into(), Val::r(im1)));
        // single-stage flate image
        let pixels2: Vec<u8> = (0..6).map(|i| (200 - i * 9) as u8).collect();
        let im2 = b.add_stream(
            vec![
                ("Type".into(), Val::name("XObject")),
                ("Subtype".into(), Val::name("Image")),
                ("Width".into(), Val::Int(3)),
                ("Height".into(), Val::Int(2)),
                ("ColorSpace".into(), Val::name("DeviceGray")),
                ("BitsPerComponent".into(), Val::Int(8)),
                ("Filter".into(), Val::name("FlateDecode")),
            ],
            zlib_stored(&pixels2),
        );
        xobj_entries.push(("Im2".into(), Val::r(im2)));
        // Flate + PNG predictor without /Columns (default 1): rows of one tag byte + one data byte;
        // also the soft mask of the first image, so it is reachable through two typed views
        let rows: Vec<u8> = (0..4u8).flat_map(|i| [0u8, 10 + i]).collect();
        let im4 = b.add_stream(
            vec![
                ("Type".into(), Val::name("XObject")),
                ("Subtype".into(), Val::name("Image")),
                ("Width".into(), Val::Int(4)),
                ("Height".into(), Val::Int(1)),
                ("ColorSpace".into(), Val::name("DeviceGray")),
                ("BitsPerComponent".into(), Val::Int(8)),
                ("Filter".into(), Val::name("FlateDecode")),
                ("DecodeParms".into(), Val::dict(vec![("Predictor", Val::Int(12))])),
            ],
            zlib_stored(&rows),
        );
        xobj_entries.push(("Im4".into(), Val::r(im4)));
        // unfiltered image
        let im3 = b.add_stream(
            vec![
                ("Type".into(), Val::name("XObject")),
                ("Subtype".into(), Val::name("Image")),
                ("Width".into(), Val::Int(2)),
                ("Height".into(), Val::Int(2)),
                ("ColorSpace".into(), Val::name("DeviceGray")),
                ("BitsPerComponent".into(), Val::Int(8)),
            ],
            vec![1, 2, 3, 4],
        );
        xobj_entries.push(("Im3".into(), Val::r(im3)));
        // two filters of the kind that carries parameters (Flate inside Flate), none given
        let pixels5: Vec<u8> = (0..4).map(|i| (40 + i * 5) as u8).collect();
        let im5 = b.add_stream(
            vec![
                ("Type".into(), Val::name("XObject")),
                ("Subtype".into(), Val::name("Image")),
                ("Width".into(), Val::Int(2)),
                ("Height".into(), Val::Int(2)),
                ("ColorSpace".into(), Val::name("DeviceGray")),
                ("BitsPerComponent".into(), Val::Int(8)),
                ("Filter".into(), Val::Arr(vec![Val::name("FlateDecode"), Val::name("FlateDecode")])),
            ],
            zlib_stored(&zlib_stored(&pixels5)),
        );
        xobj_entries.push(("Im5".into(), Val::r(im5)));
        // parameters for the second of two filters only: /DecodeParms [null << /Predictor 12 >>]
        let rows6: Vec<u8> = (0..3u8).flat_map(|i| [0u8, 70 + i]).collect();
        let im6 = b.add_stream(
            vec![
                ("Type".into(), Val::name("XObject")),
                ("Subtype".into(), Val::name("Image")),
                ("Width".into(), Val::Int(3)),
                ("Height".into(), Val::Int(1)),
                ("ColorSpace".into(), Val::name("DeviceGray")),
                ("BitsPerComponent".into(), Val::Int(8)),
                ("Filter".into(), Val::Arr(vec![Val::name("ASCIIHexDecode"), Val::name("FlateDecode")])),
                ("DecodeParms".into(), Val::Arr(vec![Val::Null, Val::dict(vec![("Predictor", Val::Int(12))])])),
            ],
            ascii_hex(&zlib_stored(&rows6)),
        );
        xobj_entries.push(("Im6".into(), Val::r(im6)));
        // LZW, 400 pixels that do not repeat much (the code width grows past 9 bits, so /EarlyChange
        // matters): once with /EarlyChange 0, once with the default
        let pixels7: Vec<u8> = (0..400u32).map(|i| ((i * 37 + i / 7) % 251) as u8).collect();
        for (name, early) in [("Im7", false), ("Im8", true)] {
            let mut d: Dict = vec![
                ("Type".into(), Val::name("XObject")),
                ("Subtype".into(), Val::name("Image")),
                ("Width".into(), Val::Int(40)),
                ("Height".into(), Val::Int(10)),
                ("ColorSpace".into(), Val::name("DeviceGray")),
                ("BitsPerComponent".into(), Val::Int(8)),
                ("Filter".into(), Val::name("LZWDecode")),
            ];
            if !early {
                d.push(("DecodeParms".into(), Val::dict(vec![("EarlyChange", Val::Int(0))])));
            }
            let im = b.add_stream(d, lzw(&pixels7, early));
            xobj_entries.push((name.into(), Val::r(im)));
        }
    }
    if o.forms {
        let fm = b.add_stream(
            vec![
                ("Type".into(), Val::name("XObject")),
                ("Subtype".into(), Val::name("Form")),
                ("BBox".into(), rect(0, 0, 100, 100)),
                ("Resources".into(), Val::dict(vec![("ProcSet", Val::Arr(vec![Val::name("PDF")]))])),
                ("Filter".into(), Val::name("ASCIIHexDecode")),
            ],
            ascii_hex(b"0 0 m 10 10 l S\n"),
        );
        xobj_entries.push(("Fm1".into(), Val::r(fm)));
    }
    let mut res_dict: Dict = vec![];
    if !font_entries.is_empty() {
        res_dict.push(("Font".into(), Val::Dict(font_entries.clone())));
    }
    if !xobj_entries.is_empty() {
        res_dict.push(("XObject".into(), Val::Dict(xobj_entries.clone())));
    }
    res_dict.push(("ExtGState".into(), Val::dict(vec![("GS1", Val::dict(vec![("Type", Val::name("ExtGState")), ("LW", Val::Int(2))]))])));
    if o.images {
        // colour spaces whose parts are indirect objects: an /Indexed space over a padded palette
        // stream (8 bytes where 6 are needed), an ICC profile with an alternate, a tint function
        let palette = b.add_stream(vec![], vec![0, 0, 0, 255, 255, 255, 9, 9]);
        let icc = b.add_stream(vec![("N".into(), Val::Int(3)), ("Alternate".into(), Val::name("DeviceRGB"))], vec![0u8; 12]);
        let tint = b.add(Val::dict(vec![("FunctionType", Val::Int(2)), ("Domain", Val::ints(&[0, 1])), ("C0", Val::ints(&[0])), ("C1", Val::ints(&[1])), ("N", Val::Int(1))]));
        let sep = b.add(Val::Arr(vec![Val::name("Separation"), Val::name("Spot"), Val::name("DeviceGray"), Val::r(tint)]));
        res_dict.push((
            "ColorSpace".into(),
            Val::dict(vec![
                ("CS0", Val::Arr(vec![Val::name("Indexed"), Val::name("DeviceRGB"), Val::Int(1), Val::r(palette)])),
                ("CS1", Val::Arr(vec![Val::name("ICCBased"), Val::r(icc)])),
                ("CS2", Val::r(sep)),
                // four levels: DeviceN over Separation over Indexed over ICCBased
                (
                    "CS3",
                    Val::Arr(vec![
                        Val::name("DeviceN"),
                        Val::Arr(vec![Val::name("A"), Val::name("B")]),
                        Val::Arr(vec![
                            Val::name("Separation"),
                            Val::name("S"),
                            Val::Arr(vec![Val::name("Indexed"), Val::Arr(vec![Val::name("ICCBased"), Val::r(icc)]), Val::Int(1), Val::r(palette)]),
                            Val::r(tint),
                        ]),
                        Val::r(tint),
                    ]),
                ),
            ]),
        ));
    }
    let shared_res = b.add(Val::Dict(res_dict.clone()));

    // --- page tree -----------------------------------------------------------------------------
    let xnames: Vec<String> = xobj_entries.iter().map(|(k, _)| k.clone()).collect();
    let fname = font_entries.first().map(|(k, _)| k.clone());
    let mut leaves: Vec<u32> = vec![];
    // nodes: build a chain of `depth` intermediate nodes under the root, leaves distributed
    let mut parents: Vec<u32> = vec![pages_root];
    for _ in 0..o.depth {
        parents.push(b.reserve());
    }
    let mut kids_of: Vec<Vec<u32>> = vec![vec![]; parents.len()];
    let mut count_of: Vec<i64> = vec![0; parents.len()];
    for pi in 0..o.pages {
        let level = rng.usize(parents.len());
        let contents = b.add_stream(vec![], content_text(rng, fname.as_deref(), &xnames));
        let page = b.reserve();
        let mut d: Vec<(&str, Val)> = vec![("Type", Val::name("Page")), ("Parent", Val::r(parents[level])), ("Contents", Val::r(contents))];
        if rng.coin() {
            d.push(("MediaBox", rect(0, 0, 612 + pi as i64, 792)));
        }
        if rng.chance(1, 3) {
            d.push(("CropBox", rect(10, 10, 600, 780)));
        }
        if !o.shared_resources || rng.chance(1, 3) {
            d.push(("Resources", if rng.coin() { Val::r(shared_res) } else { Val::Dict(res_dict.clone()) }));
        }
        if rng.chance(1, 4) {
            d.push(("Rotate", Val::Int(90)));
        }
        if o.annots {
            let a1 = b.add(Val::dict(vec![
                ("Type", Val::name("Annot")),
                ("Subtype", Val::name("Text")),
                ("Rect", rect(10, 10, 50, 50)),
                ("Contents", Val::Str(format!("note {}", pi).into_bytes())),
                ("P", Val::r(page)),
            ]));
            d.push(("Annots", Val::Arr(vec![Val::r(a1), Val::dict(vec![("Type", Val::name("Annot")), ("Subtype", Val::name("Link")), ("Rect", rect(0, 0, 5, 5))])])));
        }
        b.put(page, Val::dict(d));
        kids_of[level].push(page);
        leaves.push(page);
    }
    // wire intermediate nodes: node i+1 is a kid of node i
    for i in (0..parents.len()).rev() {
        let mut kids: Vec<Val> = vec![];
        let mut count = kids_of[i].len() as i64;
        if i + 1 < parents.len() {
            kids.push(Val::r(parents[i + 1]));
            count += count_of[i + 1];
        }
        kids.extend(kids_of[i].iter().map(|&k| Val::r(k)));
        count_of[i] = count;
        let mut d: Vec<(&str, Val)> = vec![("Type", Val::name("Pages")), ("Kids", Val::Arr(kids)), ("Count", Val::Int(count))];
        if i > 0 {
            d.push(("Parent", Val::r(parents[i - 1])));
        }
        if i == 0 {
            d.push(("MediaBox", rect(0, 0, 595, 842)));
            d.push(("Resources", Val::r(shared_res)));
        } else if rng.coin() {
            d.push(("CropBox", rect(5, 5, 590, 830)));
        }
        b.put(parents[i], Val::dict(d));
    }

    // --- catalog extras ------------------------------------------------------------------------
    let mut cat: Vec<(&str, Val)> = vec![("Type", Val::name("Catalog")), ("Pages", Val::r(pages_root))];
    if o.names {
        let leaf1 = b.add(Val::dict(vec![
            ("Limits", Val::Arr(vec![Val::Str(b"a".to_vec()), Val::Str(b"b".to_vec())])),
            ("Names", Val::Arr(vec![Val::Str(b"a".to_vec()), Val::Arr(vec![Val::r(leaves[0]), Val::name("Fit")]), Val::Str(b"b".to_vec()), Val::Arr(vec![Val::r(leaves[0]), Val::name("XYZ"), Val::Int(0), Val::Int(0), Val::Null])])),
        ]));
        let leaf2 = b.add(Val::dict(vec![
            ("Limits", Val::Arr(vec![Val::Str(b"c".to_vec()), Val::Str(b"c".to_vec())])),
            ("Names", Val::Arr(vec![Val::Str(b"c".to_vec()), Val::dict(vec![("D", Val::Arr(vec![Val::r(leaves[leaves.len() - 1]), Val::name("FitH"), Val::Int(100)]))])])),
        ]));
        let root = b.add(Val::dict(vec![("Kids", Val::Arr(vec![Val::r(leaf1), Val::r(leaf2)]))]));
        let names = b.add(Val::dict(vec![("Dests", Val::r(root))]));
        cat.push(("Names", Val::r(names)));
    }
    if o.labels {
        let leaf = b.add(Val::dict(vec![
            ("Limits", Val::ints(&[0, 2])),
            ("Nums", Val::Arr(vec![Val::Int(0), Val::dict(vec![("S", Val::name("r"))]), Val::Int(2), Val::dict(vec![("S", Val::name("D")), ("St", Val::Int(1)), ("P", Val::Str(b"p-".to_vec()))])])),
        ]));
        // the labels either in a leaf of their own or directly in the catalog (then their strings
        // are part of what a typed load of the catalog reads)
        if rng.coin() {
            cat.push(("PageLabels", Val::dict(vec![("Kids", Val::Arr(vec![Val::r(leaf)]))])));
        } else {
            cat.push(("PageLabels", Val::dict(vec![("Nums", Val::Arr(vec![Val::Int(0), Val::dict(vec![("S", Val::name("D")), ("P", Val::Str(b"A-".to_vec()))])]))])));
        }
    }
    if o.outlines {
        let outlines = b.reserve();
        let i1 = b.reserve();
        let i2 = b.reserve();
        b.put(i1, Val::dict(vec![("Title", Val::Str(b"One".to_vec())), ("Parent", Val::r(outlines)), ("Next", Val::r(i2)), ("Dest", Val::Arr(vec![Val::r(leaves[0]), Val::name("Fit")]))]));
        b.put(i2, Val::dict(vec![("Title", Val::Str(b"Two".to_vec())), ("Parent", Val::r(outlines)), ("Prev", Val::r(i1)), ("A", Val::dict(vec![("S", Val::name("URI")), ("URI", Val::Str(b"http://example.org".to_vec()))]))]));
        b.put(outlines, Val::dict(vec![("Type", Val::name("Outlines")), ("First", Val::r(i1)), ("Last", Val::r(i2)), ("Count", Val::Int(2))]));
        cat.push(("Outlines", Val::r(outlines)));
    }
    if o.acroform {
        let parent = b.reserve();
        let kid = b.add(Val::dict(vec![("FT", Val::name("Tx")), ("T", Val::Str(b"kid".to_vec())), ("Parent", Val::r(parent)), ("V", Val::Str(b"value".to_vec())), ("Rect", rect(0, 0, 10, 10))]));
        b.put(parent, Val::dict(vec![("T", Val::Str(b"group".to_vec())), ("Kids", Val::Arr(vec![Val::r(kid)]))]));
        cat.push(("AcroForm", Val::dict(vec![("Fields", Val::Arr(vec![Val::r(parent)])), ("DA", Val::Str(b"/F1 0 Tf".to_vec()))])));
    }
    b.put(catalog, Val::dict(cat));
    let mut layout = layout.clone();
    layout.keep_direct.push(catalog);
    b.finish(catalog, &layout, rng)
}

/// Minimal two-leaf document (the scenario of DESIGN §A.5).
pub fn two_leaf(rng: &mut Rng, layout: &Layout) -> DocSpec {
    let mut b = Builder::new();
    let catalog = b.reserve();
    let pages = b.reserve();
    let p1 = b.add(Val::dict(vec![("Type", Val::name("Page")), ("Parent", Val::r(pages)), ("MediaBox", rect(0, 0, 100, 100))]));
    let p2 = b.add(Val::dict(vec![("Type", Val::name("Page")), ("Parent", Val::r(pages))]));
    b.put(pages, Val::dict(vec![("Type", Val::name("Pages")), ("Kids", Val::Arr(vec![Val::r(p1), Val::r(p2)])), ("Count", Val::Int(2)), ("MediaBox", rect(0, 0, 200, 200)), ("Resources", Val::dict(vec![]))]));
    b.put(catalog, Val::dict(vec![("Type", Val::name("Catalog")), ("Pages", Val::r(pages))]));
    let mut layout = layout.clone();
    layout.keep_direct.push(catalog);
    b.finish(catalog, &layout, rng)
}

/// Hostile: two /Pages nodes that name each other as /Parent (a typed reference cycle through an
/// eagerly loaded field), reachable from a healthy page tree.
pub fn cyclic_parents(rng: &mut Rng, layout: &Layout) -> DocSpec {
    let mut b = Builder::new();
    let catalog = b.reserve();
    let pages = b.reserve();
    let n3 = b.reserve();
    let n4 = b.reserve();
    let leaf = b.add(Val::dict(vec![("Type", Val::name("Page")), ("Parent", Val::r(pages)), ("MediaBox", rect(0, 0, 100, 100)), ("Resources", Val::dict(vec![]))]));
    b.put(n3, Val::dict(vec![("Type", Val::name("Pages")), ("Parent", Val::r(n4)), ("Kids", Val::Arr(vec![])), ("Count", Val::Int(0))]));
    b.put(n4, Val::dict(vec![("Type", Val::name("Pages")), ("Parent", Val::r(n3)), ("Kids", Val::Arr(vec![])), ("Count", Val::Int(0))]));
    b.put(pages, Val::dict(vec![("Type", Val::name("Pages")), ("Kids", Val::Arr(vec![Val::r(leaf), Val::r(n3), Val::r(n4)])), ("Count", Val::Int(1))]));
    b.put(catalog, Val::dict(vec![("Type", Val::name("Catalog")), ("Pages", Val::r(pages))]));
    let mut layout = layout.clone();
    layout.keep_direct.push(catalog);
    b.finish(catalog, &layout, rng)
}

/// Optional fields that name objects which do not exist: a /Pages node whose /Parent is an undefined
/// number, one whose /Parent is a freed number, a font whose /ToUnicode is freed and whose descriptor
/// names an undefined /FontFile2, two pages whose /Resources are a freed and an undefined number; all beside two healthy pages. ("References to non-existing
/// objects ought not to be an error", says the library; whatever it answers, it must answer the same
/// with and without caches and whatever was called before.)
pub fn dangling(rng: &mut Rng, layout: &Layout) -> DocSpec {
    let mut b = Builder::new();
    let catalog = b.reserve();
    let pages = b.reserve();
    let undefined = b.reserve();
    let freed = b.reserve();
    let descriptor = b.add(Val::dict(vec![("Type", Val::name("FontDescriptor")), ("FontName", Val::name("Dangle")), ("Flags", Val::Int(4)), ("FontFile2", Val::r(undefined))]));
    let font = b.add(Val::dict(vec![
        ("Type", Val::name("Font")),
        ("Subtype", Val::name("TrueType")),
        ("BaseFont", Val::name("Dangle")),
        ("FirstChar", Val::Int(65)),
        ("LastChar", Val::Int(66)),
        ("Widths", Val::ints(&[500, 600])),
        ("FontDescriptor", Val::r(descriptor)),
        ("ToUnicode", Val::r(freed)),
    ]));
    let p1 = b.add(Val::dict(vec![("Type", Val::name("Page")), ("Parent", Val::r(pages)), ("MediaBox", rect(0, 0, 100, 100)), ("Resources", Val::dict(vec![("Font", Val::dict(vec![("F1", Val::r(font))]))]))]));
    let p2 = b.add(Val::dict(vec![("Type", Val::name("Page")), ("Parent", Val::r(pages)), ("Resources", Val::dict(vec![]))]));
    let p3 = b.add(Val::dict(vec![("Type", Val::name("Page")), ("Parent", Val::r(pages)), ("Resources", Val::r(freed))]));
    let p4 = b.add(Val::dict(vec![("Type", Val::name("Page")), ("Parent", Val::r(pages)), ("Resources", Val::r(undefined))]));
    let n_undef = b.add(Val::dict(vec![("Type", Val::name("Pages")), ("Parent", Val::r(undefined)), ("Kids", Val::Arr(vec![])), ("Count", Val::Int(0))]));
    let n_freed = b.add(Val::dict(vec![("Type", Val::name("Pages")), ("Parent", Val::r(freed)), ("Kids", Val::Arr(vec![])), ("Count", Val::Int(0))]));
    b.put(pages, Val::dict(vec![("Type", Val::name("Pages")), ("Kids", Val::Arr(vec![Val::r(p1), Val::r(p2), Val::r(p3), Val::r(p4), Val::r(n_undef), Val::r(n_freed)])), ("Count", Val::Int(4)), ("MediaBox", rect(0, 0, 200, 200))]));
    b.put(catalog, Val::dict(vec![("Type", Val::name("Catalog")), ("Pages", Val::r(pages))]));
    let mut layout = layout.clone();
    layout.keep_direct.push(catalog);
    let mut spec = b.finish(catalog, &layout, rng);
    spec.revisions[0].slots.insert(freed, Slot::Free { gen: 1 });
    spec
}

/// Two stream objects (5 and 6) beside a healthy page tree; `shared_header_patch` then rewrites the
/// header of object 6 to read "5 0 obj": two cross-reference entries lead to objects that carry the
/// same number (a file damaged by a careless editor).
pub fn shared_header(rng: &mut Rng, layout: &Layout) -> DocSpec {
    let mut b = Builder::new();
    let catalog = b.reserve();
    let pages = b.reserve();
    let p1 = b.add(Val::dict(vec![("Type", Val::name("Page")), ("Parent", Val::r(pages)), ("MediaBox", rect(0, 0, 100, 100)), ("Resources", Val::dict(vec![]))]));
    let p2 = b.add(Val::dict(vec![("Type", Val::name("Page")), ("Parent", Val::r(pages)), ("Resources", Val::dict(vec![]))]));
    let s1 = b.add_stream(vec![("Note".into(), Val::Int(1))], b"AAAA first stream".to_vec());
    let s2 = b.add_stream(vec![("Note".into(), Val::Int(2)), ("Filter".into(), Val::name("ASCIIHexDecode"))], ascii_hex(b"BBBB second stream"));
    assert_eq!((s1, s2), (5, 6));
    b.put(pages, Val::dict(vec![("Type", Val::name("Pages")), ("Kids", Val::Arr(vec![Val::r(p1), Val::r(p2)])), ("Count", Val::Int(2)), ("MediaBox", rect(0, 0, 200, 200))]));
    b.put(catalog, Val::dict(vec![("Type", Val::name("Catalog")), ("Pages", Val::r(pages))]));
    let mut layout = layout.clone();
    layout.keep_direct.push(catalog);
    b.finish(catalog, &layout, rng)
}
pub fn shared_header_patch(bytes: &mut Vec<u8>) {
    let needle = b"\n6 0 obj\n";
    if let Some(p) = bytes.windows(needle.len()).position(|w| w == needle) {
        bytes[p + 1] = b'5';
    }
}

/// Hostile: two JBIG2 streams that name each other as /JBIG2Globals (a typed reference cycle through
/// the filter parameters), beside a healthy page tree.
pub fn jbig_cycle(rng: &mut Rng, layout: &Layout) -> DocSpec {
    let mut b = Builder::new();
    let catalog = b.reserve();
    let pages = b.reserve();
    let p1 = b.add(Val::dict(vec![("Type", Val::name("Page")), ("Parent", Val::r(pages)), ("MediaBox", rect(0, 0, 100, 100)), ("Resources", Val::dict(vec![]))]));
    let a = b.reserve();
    let c = b.reserve();
    for (me, other) in [(a, c), (c, a)] {
        b.put_stream(
            me,
            vec![
                ("Type".into(), Val::name("XObject")),
                ("Subtype".into(), Val::name("Image")),
                ("Width".into(), Val::Int(1)),
                ("Height".into(), Val::Int(1)),
                ("ColorSpace".into(), Val::name("DeviceGray")),
                ("BitsPerComponent".into(), Val::Int(1)),
                ("Filter".into(), Val::name("JBIG2Decode")),
                ("DecodeParms".into(), Val::dict(vec![("JBIG2Globals", Val::r(other))])),
            ],
            vec![0, 1, 2, 3],
        );
    }
    b.put(pages, Val::dict(vec![("Type", Val::name("Pages")), ("Kids", Val::Arr(vec![Val::r(p1)])), ("Count", Val::Int(1))]));
    b.put(catalog, Val::dict(vec![("Type", Val::name("Catalog")), ("Pages", Val::r(pages))]));
    let mut layout = layout.clone();
    layout.keep_direct.push(catalog);
    b.finish(catalog, &layout, rng)
}

/// Hostile: 70 /Pages nodes in a /Parent chain without a cycle (more than the 64 typed loads the
/// library lets nest), beside a healthy page. Node k is object 3 + k; the bottom node holds a leaf.
pub fn long_parents(rng: &mut Rng, layout: &Layout) -> DocSpec {
    let mut b = Builder::new();
    let catalog = b.reserve();
    let pages = b.reserve();
    let n = 70;
    let nodes: Vec<u32> = (0..n).map(|_| b.reserve()).collect();
    let leaf = b.add(Val::dict(vec![("Type", Val::name("Page")), ("Parent", Val::r(nodes[n - 1])), ("MediaBox", rect(0, 0, 10, 10)), ("Resources", Val::dict(vec![]))]));
    let healthy = b.add(Val::dict(vec![("Type", Val::name("Page")), ("Parent", Val::r(pages)), ("MediaBox", rect(0, 0, 100, 100)), ("Resources", Val::dict(vec![]))]));
    for i in 0..n {
        let kid = if i + 1 < n { nodes[i + 1] } else { leaf };
        let parent = if i == 0 { pages } else { nodes[i - 1] };
        b.put(nodes[i], Val::dict(vec![("Type", Val::name("Pages")), ("Parent", Val::r(parent)), ("Kids", Val::Arr(vec![Val::r(kid)])), ("Count", Val::Int(1))]));
    }
    b.put(pages, Val::dict(vec![("Type", Val::name("Pages")), ("Kids", Val::Arr(vec![Val::r(healthy), Val::r(nodes[0])])), ("Count", Val::Int(2))]));
    b.put(catalog, Val::dict(vec![("Type", Val::name("Catalog")), ("Pages", Val::r(pages))]));
    let mut layout = layout.clone();
    layout.keep_direct.push(catalog);
    b.finish(catalog, &layout, rng)
}

/// Hostile: two ICC profile streams that name each other as /Alternate, both used by one resources
/// object (an indirect one, so that it can be loaded typed on its own), beside a healthy page.
pub fn icc_cycle(rng: &mut Rng, layout: &Layout) -> DocSpec {
    let mut b = Builder::new();
    let catalog = b.reserve();
    let pages = b.reserve();
    let a = b.reserve();
    let c = b.reserve();
    for (me, other) in [(a, c), (c, a)] {
        b.put_stream(me, vec![("N".into(), Val::Int(1)), ("Alternate".into(), Val::Arr(vec![Val::name("ICCBased"), Val::r(other)]))], vec![0u8; 8]);
    }
    let resources = b.add(Val::dict(vec![("ColorSpace", Val::dict(vec![("CS0", Val::Arr(vec![Val::name("ICCBased"), Val::r(a)])), ("CS1", Val::Arr(vec![Val::name("ICCBased"), Val::r(c)]))]))]));
    let p1 = b.add(Val::dict(vec![("Type", Val::name("Page")), ("Parent", Val::r(pages)), ("MediaBox", rect(0, 0, 100, 100)), ("Resources", Val::r(resources))]));
    let p2 = b.add(Val::dict(vec![("Type", Val::name("Page")), ("Parent", Val::r(pages)), ("MediaBox", rect(0, 0, 100, 100)), ("Resources", Val::dict(vec![]))]));
    b.put(pages, Val::dict(vec![("Type", Val::name("Pages")), ("Kids", Val::Arr(vec![Val::r(p1), Val::r(p2)])), ("Count", Val::Int(2))]));
    b.put(catalog, Val::dict(vec![("Type", Val::name("Catalog")), ("Pages", Val::r(pages))]));
    let mut layout = layout.clone();
    layout.keep_direct.push(catalog);
    b.finish(catalog, &layout, rng)
}

/// Hostile: a /Pages node that lists itself among its /Kids (in front of a healthy leaf).
pub fn self_kid(rng: &mut Rng, layout: &Layout) -> DocSpec {
    let mut b = Builder::new();
    let catalog = b.reserve();
    let pages = b.reserve();
    let leaf = b.add(Val::dict(vec![("Type", Val::name("Page")), ("Parent", Val::r(pages)), ("MediaBox", rect(0, 0, 100, 100)), ("Resources", Val::dict(vec![]))]));
    b.put(pages, Val::dict(vec![("Type", Val::name("Pages")), ("Kids", Val::Arr(vec![Val::r(pages), Val::r(leaf)])), ("Count", Val::Int(1))]));
    b.put(catalog, Val::dict(vec![("Type", Val::name("Catalog")), ("Pages", Val::r(pages))]));
    let mut layout = layout.clone();
    layout.keep_direct.push(catalog);
    b.finish(catalog, &layout, rng)
}

/// A page tree as deep as `File::get_page` accepts (the root plus up to 15 nested /Pages nodes),
/// with a leaf at the bottom and one at every third level.
pub fn deep_tree(rng: &mut Rng, layout: &Layout) -> DocSpec {
    let mut b = Builder::new();
    let catalog = b.reserve();
    // nested nodes below the root: the maximum get_page accepts (15) half of the time, else 11..=14
    let depth = if rng.coin() { 15 } else { 11 + rng.usize(4) };
    let nodes: Vec<u32> = (0..=depth).map(|_| b.reserve()).collect();
    let mut counts = vec![0i64; depth + 1];
    let mut extra_leaf: Vec<Option<u32>> = vec![None; depth + 1];
    for i in 0..=depth {
        if i == depth || i % 3 == 2 {
            let leaf = b.add(Val::dict(vec![("Type", Val::name("Page")), ("Parent", Val::r(nodes[i])), ("Resources", Val::dict(vec![]))]));
            extra_leaf[i] = Some(leaf);
        }
    }
    for i in (0..=depth).rev() {
        let mut kids = vec![];
        let mut count = 0;
        if i < depth {
            kids.push(Val::r(nodes[i + 1]));
            count += counts[i + 1];
        }
        if let Some(l) = extra_leaf[i] {
            kids.push(Val::r(l));
            count += 1;
        }
        counts[i] = count;
        let mut d = vec![("Type", Val::name("Pages")), ("Kids", Val::Arr(kids)), ("Count", Val::Int(count))];
        if i > 0 {
            d.push(("Parent", Val::r(nodes[i - 1])));
        } else {
            d.push(("MediaBox", rect(0, 0, 400, 400)));
        }
        b.put(nodes[i], Val::dict(d));
    }
    b.put(catalog, Val::dict(vec![("Type", Val::name("Catalog")), ("Pages", Val::r(nodes[0]))]));
    let mut layout = layout.clone();
    layout.keep_direct.push(catalog);
    b.finish(catalog, &layout, rng)
}

#[derive(Clone, Debug, PartialEq)]
pub enum Family {
    Rich,
    TwoLeaf,
    CyclicParents,
    DeepTree,
    /// `Rich`, written encrypted (RC4, 40 or 128 bit, plain or through crypt filters; empty user password)
    RichEncrypted,
    Dangling,
    SharedHeader,
    JbigCycle,
    LongParents,
    IccCycle,
    SelfKid,
}
impl Family {
    pub fn name(&self) -> &'static str {
        match self {
            Family::Rich => "rich",
            Family::TwoLeaf => "two_leaf",
            Family::CyclicParents => "cyclic_parents",
            Family::DeepTree => "deep_tree",
            Family::RichEncrypted => "rich_encrypted",
            Family::Dangling => "dangling",
            Family::SharedHeader => "shared_header",
            Family::JbigCycle => "jbig_cycle",
            Family::LongParents => "long_parents",
            Family::IccCycle => "icc_cycle",
            Family::SelfKid => "self_kid",
        }
    }
}

pub fn generate(family: &Family, rng: &mut Rng) -> DocSpec {
    let layout = Layout::random(rng);
    match family {
        Family::Rich => {
            let o = RichOpts::random(rng);
            rich(rng, &o, &layout)
        }
        Family::TwoLeaf => two_leaf(rng, &layout),
        Family::CyclicParents => cyclic_parents(rng, &layout),
        Family::DeepTree => deep_tree(rng, &layout),
        Family::Dangling => dangling(rng, &layout),
        Family::SharedHeader => {
            // every other one encrypted (the stream data is then bound to the object number twice:
            // by the cache key and by the key it is decrypted with)
            let mut layout = layout;
            if rng.coin() {
                layout.encrypt = Some((3, 16));
            }
            shared_header(rng, &layout)
        }
        Family::JbigCycle => jbig_cycle(rng, &layout),
        Family::LongParents => long_parents(rng, &layout),
        Family::IccCycle => icc_cycle(rng, &layout),
        Family::SelfKid => self_kid(rng, &layout),
        Family::RichEncrypted => {
            let o = RichOpts::random(rng);
            let mut layout = layout;
            layout.encrypt = Some(*rng.pick(&[(2u8, 5usize), (3, 5), (3, 16), (4, 16)]));
            rich(rng, &o, &layout)
        }
    }
}
