use crate::*;
use crate::rng::Rng;

pub fn docs(n: u64) -> i32 {
    let mut bad = 0;
    for seed in 0..n {
        for fam in [families::Family::Rich, families::Family::TwoLeaf, families::Family::CyclicParents, families::Family::DeepTree] {
            let mut rng = Rng::new(rng::run_seed(1, fam.name(), seed));
            let spec = families::generate(&fam, &mut rng);
            let w = docgen::write_doc(&spec);
            if let Err(e) = docgen::self_check(&spec, &w) {
                println!("SELF-CHECK FAIL {} seed {}: {}", fam.name(), seed, e);
                bad += 1;
                continue;
            }
            let j = spec.to_json();
            if docgen::DocSpec::from_json(&j).as_ref() != Some(&spec) {
                println!("JSON ROUNDTRIP FAIL {} seed {}", fam.name(), seed);
                bad += 1;
            }
            let inv = ops::inventory(&w.bytes, b"");
            if !inv.loadable {
                let ctl = seams::SimCtl::new(false, false);
                let e = ops::open(&w.bytes, &ctl, false, b"").err();
                println!("LOAD FAIL {} seed {}: {:?}", fam.name(), seed, e);
                bad += 1;
            }
        }
    }
    // C01's string-resize fault must keep the rest of the document readable: rewriting every string
    // token of the encrypted corpus files with its own length (as a hexadecimal string, which moves
    // everything behind it) leaves the walk outcome unchanged
    let repo = std::env::var("PDF_REPO").unwrap_or_else(|_| "/repo".into());
    for name in ["passwords_aes_128", "passwords_aes_256", "passwords_aes_256_hardened", "passwords_rc4_rev2", "passwords_rc4_rev3"] {
        let bytes = match std::fs::read(format!("{}/files/password_protected/{}.pdf", repo, name)) {
            Ok(b) => b,
            Err(_) => continue,
        };
        let cfg = walker::WalkCfg { tolerant: false, cached: false, stack: 8 << 20 };
        let base = walker::walk(&bytes, b"userpassword", cfg, None);
        let toks = c01::string_tokens(&bytes);
        if !base.loaded || toks.len() < 3 {
            println!("STRING-RESIZE SELF-CHECK FAIL {}: loaded={} tokens={}", name, base.loaded, toks.len());
            bad += 1;
        }
        for (k, t) in toks.iter().enumerate() {
            let mut b = bytes.clone();
            c01::Fault::StringResize { index: k, len: t.2.len(), fill: 0 }.apply(&mut b);
            let r = walker::walk(&b, b"userpassword", cfg, None);
            if r.outcome != base.outcome {
                println!("STRING-RESIZE SELF-CHECK FAIL {} token {} ({} bytes): outcome changed", name, k, t.2.len());
                bad += 1;
            }
        }
    }
    println!("selftest-docs: {} failures", bad);
    if bad > 0 { 2 } else { 0 }
}
