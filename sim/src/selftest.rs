use crate::*;
use crate::rng::Rng;

pub fn docs(n: u64) -> i32 {
    let mut bad = 0;
    for seed in 0..n {
        for fam in [families::Family::Rich, families::Family::TwoLeaf, families::Family::CyclicParents, families::Family::DeepTree, families::Family::RichEncrypted, families::Family::Dangling] {
            let mut rng = Rng::new(rng::run_seed(1, fam.name(), seed));
            let spec = families::generate(&fam, &mut rng);
            let w = docgen::write_doc(&spec);
            if let Err(e) = docgen::self_check(&spec, &w) {
                println!("SELF-CHECK FAIL {} seed {}: {}", fam.name(), seed, e);
                bad += 1;
                continue;
            }
            let j = spec.to_json();
            if docgen::DocSpec::from_json(&j).as_ref() != Some(&spec) {
                println!("JSON ROUNDTRIP FAIL {} seed {}", fam.name(), seed);
                bad += 1;
            }
            let inv = ops::inventory(&w.bytes, b"");
            if !inv.loadable {
                let ctl = seams::SimCtl::new(false, false);
                let e = ops::open(&w.bytes, &ctl, false, b"").err();
                println!("LOAD FAIL {} seed {}: {:?}", fam.name(), seed, e);
                bad += 1;
            }
        }
    }
    // C01's string-resize fault must keep the rest of the document readable: rewriting every string
    // token of the encrypted corpus files with its own length (as a hexadecimal string, which moves
    // everything behind it) leaves the walk outcome unchanged
    let repo = std::env::var("PDF_REPO").unwrap_or_else(|_| "/repo".into());
    for name in ["passwords_aes_128", "passwords_aes_256", "passwords_aes_256_hardened", "passwords_rc4_rev2", "passwords_rc4_rev3"] {
        let bytes = match std::fs::read(format!("{}/files/password_protected/{}.pdf", repo, name)) {
            Ok(b) => b,
            Err(_) => continue,
        };
        let cfg = walker::WalkCfg { tolerant: false, cached: false, stack: 8 << 20 };
        let base = walker::walk(&bytes, b"userpassword", cfg, None);
        let toks = c01::string_tokens(&bytes);
        if !base.loaded || toks.len() < 3 {
            println!("STRING-RESIZE SELF-CHECK FAIL {}: loaded={} tokens={}", name, base.loaded, toks.len());
            bad += 1;
        }
        for (k, t) in toks.iter().enumerate() {
            let mut b = bytes.clone();
            c01::Fault::StringResize { index: k, len: t.2.len(), fill: 0 }.apply(&mut b);
            let r = walker::walk(&b, b"userpassword", cfg, None);
            if r.outcome != base.outcome {
                println!("STRING-RESIZE SELF-CHECK FAIL {} token {} ({} bytes): outcome changed", name, k, t.2.len());
                bad += 1;
            }
        }
    }
    bad += crypt(&repo);
    println!("selftest-docs: {} failures", bad);
    if bad > 0 { 2 } else { 0 }
}

/// Second opinion: MD5 test vectors (RFC 1321), an RC4 test vector, and /O and /U of the corpus
/// files recomputed from their passwords. Returns the number of failures.
pub fn crypt(repo: &str) -> i32 {
    use crate::crypt_ref::*;
    let mut bad = 0;
    let hexs = |b: &[u8]| crate::docgen::hex(b).to_lowercase();
    for (m, want) in [("", "d41d8cd98f00b204e9800998ecf8427e"), ("abc", "900150983cd24fb0d6963f7d28e17f72"), ("12345678901234567890123456789012345678901234567890123456789012345678901234567890", "57edf4a22be3c955ac49da2e2107b67a")] {
        if hexs(&md5(m.as_bytes())) != want {
            println!("CRYPT SELF-CHECK FAIL md5({:?})", m);
            bad += 1;
        }
    }
    if hexs(&rc4(b"Key", b"Plaintext")) != "bbf316e8d940af0ad3" {
        println!("CRYPT SELF-CHECK FAIL rc4");
        bad += 1;
    }
    for (name, r, key_len) in [("passwords_rc4_rev2", 2u8, 5usize), ("passwords_rc4_rev3", 3, 8)] {
        let bytes = match std::fs::read(format!("{}/files/password_protected/{}.pdf", repo, name)) {
            Ok(b) => b,
            Err(_) => continue,
        };
        let toks = crate::c01::string_tokens(&bytes);
        // the strings of the file in order: ..., /O, /U in the encryption dictionary, then the two /ID strings
        let find_after = |key: &[u8]| -> Option<Vec<u8>> {
            let p = bytes.windows(key.len()).position(|w| w == key)?;
            toks.iter().find(|t| t.0 >= p).map(|t| t.2.clone())
        };
        let (o, u, id0) = match (find_after(b"/O "), find_after(b"/U "), find_after(b"/ID")) {
            (Some(o), Some(u), Some(i)) => (o, u, i),
            _ => {
                println!("CRYPT SELF-CHECK FAIL {}: entries not found", name);
                bad += 1;
                continue;
            }
        };
        let p_pos = bytes.windows(3).position(|w| w == b"/P ").unwrap_or(0) + 3;
        let p_txt: String = bytes[p_pos..].iter().take_while(|c| c.is_ascii_digit() || **c == b'-').map(|&c| c as char).collect();
        let p: i32 = p_txt.parse().unwrap_or(0);
        let len_pos = bytes.windows(8).position(|w| w == b"/Length ").map(|x| x + 8);
        let _ = len_pos;
        let my_o = compute_o(r, key_len, b"ownerpassword", b"userpassword");
        if my_o != o {
            println!("CRYPT SELF-CHECK FAIL {}: /O differs", name);
            bad += 1;
        }
        let key = compute_key(r, key_len, b"userpassword", &o, p, &id0, true);
        let my_u = compute_u(r, &key, &id0);
        let n = if r == 2 { 32 } else { 16 };
        if my_u[..n] != u[..n.min(u.len())] {
            println!("CRYPT SELF-CHECK FAIL {}: /U differs", name);
            bad += 1;
        }
        println!("crypt self-check {}: /O and /U recomputed from the passwords (P = {}, {} byte key)", name, p, key_len);
    }
    bad
}
