use crate::*;
use crate::rng::Rng;

pub fn docs(n: u64) -> i32 {
    let mut bad = 0;
    for seed in 0..n {
        for fam in [families::Family::Rich, families::Family::TwoLeaf, families::Family::CyclicParents, families::Family::DeepTree] {
            let mut rng = Rng::new(rng::run_seed(1, fam.name(), seed));
            let spec = families::generate(&fam, &mut rng);
            let w = docgen::write_doc(&spec);
            if let Err(e) = docgen::self_check(&spec, &w) {
                println!("SELF-CHECK FAIL {} seed {}: {}", fam.name(), seed, e);
                bad += 1;
                continue;
            }
            let j = spec.to_json();
            if docgen::DocSpec::from_json(&j).as_ref() != Some(&spec) {
                println!("JSON ROUNDTRIP FAIL {} seed {}", fam.name(), seed);
                bad += 1;
            }
            let inv = ops::inventory(&w.bytes, b"");
            if !inv.loadable {
                let ctl = seams::SimCtl::new(false, false);
                let e = ops::open(&w.bytes, &ctl, false, b"").err();
                println!("LOAD FAIL {} seed {}: {:?}", fam.name(), seed, e);
                bad += 1;
            }
        }
    }
    println!("selftest-docs: {} failures", bad);
    if bad > 0 { 2 } else { 0 }
}
