//! The read-operation alphabet shared by C12 and C13, its executor against the real library,
//! and the per-document inventory used to aim operations at objects (and at each other).

use crate::digest::Answer;
use crate::rng::Rng;
use crate::seams::{SimCtl, SimLog, SimObjCache, SimStmCache};
use pdf::content::Op as ContentOp;
use pdf::file::{File, FileOptions};
use pdf::font::Font;
use pdf::object::*;
use pdf::primitive::{Name, Primitive};
use pdf::PdfError;
use serde_json::{json, Value as J};
use std::sync::Arc;

pub type SimFile = File<Vec<u8>, SimObjCache, SimStmCache, SimLog>;

/// Parse options as four bits: 1 = allow_error_in_option, 2 = allow_xref_error, 4 = allow_invalid_ops,
/// 8 = allow_missing_endobj. `ParseOptions::strict()` is 4, `ParseOptions::tolerant()` is 15.
pub const OPTS_STRICT: u8 = 4;
pub const OPTS_TOLERANT: u8 = 15;
pub fn opts_from_bits(bits: u8) -> ParseOptions {
    ParseOptions { allow_error_in_option: bits & 1 != 0, allow_xref_error: bits & 2 != 0, allow_invalid_ops: bits & 4 != 0, allow_missing_endobj: bits & 8 != 0 }
}
pub fn open(bytes: &[u8], ctl: &Arc<SimCtl>, tolerant: bool, password: &[u8]) -> Result<SimFile, PdfError> {
    open_opts(bytes, ctl, if tolerant { OPTS_TOLERANT } else { OPTS_STRICT }, password)
}
pub fn open_opts(bytes: &[u8], ctl: &Arc<SimCtl>, bits: u8, password: &[u8]) -> Result<SimFile, PdfError> {
    let opts = opts_from_bits(bits);
    FileOptions::uncached()
        .cache(SimObjCache(ctl.clone()), SimStmCache(ctl.clone()))
        .log(SimLog(ctl.clone()))
        .parse_options(opts)
        .password(password)
        .load(bytes.to_vec())
}

#[derive(Clone, Copy, Debug, PartialEq, Eq, PartialOrd, Ord)]
pub enum Ty {
    Pages,
    Font,
    XObject,
    ObjStm,
    Stream,
    NameTree,
    NumTree,
    Outline,
    Field,
    Annot,
    Resources,
    Prim,
}
pub const ALL_TY: [Ty; 12] = [Ty::Pages, Ty::Font, Ty::XObject, Ty::ObjStm, Ty::Stream, Ty::NameTree, Ty::NumTree, Ty::Outline, Ty::Field, Ty::Annot, Ty::Resources, Ty::Prim];

impl Ty {
    pub fn name(self) -> &'static str {
        match self {
            Ty::Pages => "PagesNode",
            Ty::Font => "Font",
            Ty::XObject => "XObject",
            Ty::ObjStm => "ObjectStream",
            Ty::Stream => "Stream",
            Ty::NameTree => "NameTree",
            Ty::NumTree => "NumberTree",
            Ty::Outline => "OutlineItem",
            Ty::Field => "FieldDictionary",
            Ty::Annot => "Annot",
            Ty::Resources => "Resources",
            Ty::Prim => "Primitive",
        }
    }
    pub fn from_name(s: &str) -> Option<Ty> {
        ALL_TY.iter().cloned().find(|t| t.name() == s)
    }
}

#[derive(Clone, Debug, PartialEq, Eq, PartialOrd, Ord)]
pub enum Op {
    Resolve(u64),
    Get(Ty, u64),
    GetPage(u32),
    StreamData(u64),
    RawImage(u64),
    ImageData(u64),
    PageWalk(u32),
    LazyAnnots(u32),
    LazyFont(u32),
    /// operations of a form XObject
    FormOps(u64),
    /// fully decoded data of an image stream through its *image* view (ImageXObject.inner.data)
    ImageStreamData(u64),
    /// catalog-level walks: destination name tree, page labels, outline chain
    Trees,
}

impl Op {
    pub fn kind(&self) -> String {
        match self {
            Op::Resolve(_) => "resolve".into(),
            Op::Get(t, _) => format!("get<{}>", t.name()),
            Op::GetPage(_) => "get_page".into(),
            Op::StreamData(_) => "stream_data".into(),
            Op::RawImage(_) => "raw_image_data".into(),
            Op::ImageData(_) => "image_data".into(),
            Op::PageWalk(_) => "page_walk".into(),
            Op::LazyAnnots(_) => "lazy_annots".into(),
            Op::LazyFont(_) => "lazy_font".into(),
            Op::FormOps(_) => "form_operations".into(),
            Op::ImageStreamData(_) => "image_stream_data".into(),
            Op::Trees => "catalog_trees".into(),
        }
    }
    pub fn to_json(&self) -> J {
        match self {
            Op::Resolve(i) => json!({ "op": "resolve", "id": i }),
            Op::Get(t, i) => json!({ "op": "get", "ty": t.name(), "id": i }),
            Op::GetPage(n) => json!({ "op": "get_page", "n": n }),
            Op::StreamData(i) => json!({ "op": "stream_data", "id": i }),
            Op::RawImage(i) => json!({ "op": "raw_image_data", "id": i }),
            Op::ImageData(i) => json!({ "op": "image_data", "id": i }),
            Op::PageWalk(n) => json!({ "op": "page_walk", "n": n }),
            Op::LazyAnnots(n) => json!({ "op": "lazy_annots", "n": n }),
            Op::LazyFont(n) => json!({ "op": "lazy_font", "n": n }),
            Op::FormOps(i) => json!({ "op": "form_operations", "id": i }),
            Op::ImageStreamData(i) => json!({ "op": "image_stream_data", "id": i }),
            Op::Trees => json!({ "op": "catalog_trees" }),
        }
    }
    pub fn from_json(j: &J) -> Option<Op> {
        let id = || j.get("id").and_then(|x| x.as_u64());
        let n = || j.get("n").and_then(|x| x.as_u64()).map(|x| x as u32);
        Some(match j.get("op")?.as_str()? {
            "resolve" => Op::Resolve(id()?),
            "get" => Op::Get(Ty::from_name(j.get("ty")?.as_str()?)?, id()?),
            "get_page" => Op::GetPage(n()?),
            "stream_data" => Op::StreamData(id()?),
            "raw_image_data" => Op::RawImage(id()?),
            "image_data" => Op::ImageData(id()?),
            "page_walk" => Op::PageWalk(n()?),
            "lazy_annots" => Op::LazyAnnots(n()?),
            "lazy_font" => Op::LazyFont(n()?),
            "form_operations" => Op::FormOps(id()?),
            "image_stream_data" => Op::ImageStreamData(id()?),
            "catalog_trees" => Op::Trees,
            _ => return None,
        })
    }
}

fn r<T>(id: u64) -> Ref<T> {
    Ref::new(PlainRef { id, gen: 0 })
}

// Page and Annot can form an in-memory cycle once a page's lazy annotations are loaded
// (Page -> annotations -> Annot -> /P -> the same shared Page), so their renderings are written
// field by field here and never descend into a Lazy cell's loaded value or an annotation's page.
pub fn annot_text(a: &Annot) -> String {
    use crate::digest::debug_bounded as d;
    format!(
        "Annot{{subtype:{},rect:{},contents:{},page:{},nm:{},date:{},flags:{},ap:{},as:{},border:{},color:{},ink:{},other:{}}}",
        d(&a.subtype), d(&a.rect), d(&a.contents), d(&a.page.as_ref().map(|p| p.get_ref().get_inner())), d(&a.annotation_name), d(&a.date), a.annot_flags,
        d(&a.appearance_streams), d(&a.appearance_state), d(&a.border), d(&a.color), d(&a.ink_list), d(&a.other)
    )
}
pub fn page_text(p: &Page) -> String {
    use crate::digest::debug_bounded as d;
    let annots = p.annotations.to_primitive(&mut NoUpdate).map(|x| d(&x)).unwrap_or_else(|e| crate::digest::error_kind(&e));
    format!(
        "Page{{parent:{},resources:{},media:{},crop:{},trim:{},contents:{},rotate:{},metadata:{},lgi:{},vp:{},annots:{},other:{}}}",
        d(&p.parent), d(&p.resources), d(&p.media_box), d(&p.crop_box), d(&p.trim_box), d(&p.contents), p.rotate, d(&p.metadata), d(&p.lgi), d(&p.vp), annots, d(&p.other)
    )
}
pub fn node_text(n: &PagesNode) -> String {
    match n {
        PagesNode::Tree(t) => format!("Tree({})", crate::digest::debug_bounded(t)),
        PagesNode::Leaf(p) => format!("Leaf({})", page_text(p)),
    }
}
fn answer_text(x: Result<String, PdfError>) -> Answer {
    match x {
        Ok(s) => Answer::ok_text(crate::digest::canon(&s)),
        Err(e) => Answer::err(&e),
    }
}

fn answer<T: std::fmt::Debug>(x: Result<T, PdfError>) -> Answer {
    match x {
        Ok(v) => Answer::ok_debug(&v),
        Err(e) => Answer::err(&e),
    }
}

fn objstm_answer(res: &impl Resolve, id: u64) -> Answer {
    match res.get::<ObjectStream>(r(id)) {
        Err(e) => Answer::err(&e),
        Ok(os) => {
            let mut s = format!("ObjectStream n={}", os.n_objects());
            for i in 0..os.n_objects().min(64) {
                match os.get_object_slice(i, res) {
                    Ok((data, range)) => match data.get(range.clone()) {
                        Some(sl) => s.push_str(&format!(" [{}:{:016x}]", i, crate::rng::fnv64(sl))),
                        None => s.push_str(&format!(" [{}:range {:?} of {}]", i, range, data.len())),
                    },
                    Err(e) => s.push_str(&format!(" [{}:{}]", i, crate::digest::error_kind(&e))),
                }
            }
            Answer::ok_text(s)
        }
    }
}

pub fn ops_digest(ops: &[ContentOp]) -> String {
    if crate::digest::LIGHT.with(|l| l.get()) {
        return format!("ops n={}", ops.len());
    }
    format!("ops n={} h={:016x}", ops.len(), crate::digest::hash_str(&crate::digest::canon(&format!("{:?}", ops))))
}

fn font_summary(font: &Font, res: &impl Resolve) -> String {
    let mut s = format!("font {:?} {:?}", font.subtype, font.name);
    match font.widths(res) {
        Ok(Some(w)) => {
            let mut h = crate::rng::Hasher64::new();
            for c in (0..300usize).chain([1000, 4096, 65535]) {
                h.u64(w.get(c).to_bits() as u64);
            }
            s.push_str(&format!(" widths={:016x}", h.finish()));
        }
        Ok(None) => s.push_str(" widths=none"),
        Err(e) => s.push_str(&format!(" widths=Err({})", crate::digest::error_kind(&e))),
    }
    match font.to_unicode(res) {
        Some(Ok(m)) => {
            let mut v: Vec<(u16, String)> = m.iter().map(|(k, s)| (k, s.to_string())).collect();
            v.sort();
            s.push_str(&format!(" tounicode n={} h={:016x}", v.len(), crate::digest::hash_str(&format!("{:?}", v))));
        }
        Some(Err(e)) => s.push_str(&format!(" tounicode=Err({})", crate::digest::error_kind(&e))),
        None => s.push_str(" tounicode=none"),
    }
    match font.embedded_data(res) {
        Some(Ok(d)) => s.push_str(&format!(" embedded len={} h={:016x}", d.len(), crate::rng::fnv64(&d))),
        Some(Err(e)) => s.push_str(&format!(" embedded=Err({})", crate::digest::error_kind(&e))),
        None => {}
    }
    s
}

fn page_of(file: &SimFile, res: &impl Resolve, own_resolver: bool, n: u32) -> Result<PageRc, PdfError> {
    if own_resolver {
        file.get_page(n)
    } else {
        file.trailer.root.pages.page(res, n)
    }
}

fn page_walk(file: &SimFile, res: &impl Resolve, own_resolver: bool, n: u32) -> Answer {
    let page = match page_of(file, res, own_resolver, n) {
        Ok(p) => p,
        Err(e) => return Answer::err(&e),
    };
    let mut s = String::new();
    s.push_str(&format!("media={} ", crate::digest::canon(&format!("{:?}", page.media_box().map_err(|e| crate::digest::error_kind(&e))))));
    s.push_str(&format!("crop={} ", crate::digest::canon(&format!("{:?}", page.crop_box().map_err(|e| crate::digest::error_kind(&e))))));
    match page.resources() {
        Ok(resources) => {
            let mut names: Vec<&Name> = resources.fonts.keys().collect();
            names.sort();
            for name in names {
                match resources.fonts[name].load(res) {
                    Ok(f) => s.push_str(&format!("{}:{} ", name.as_str(), font_summary(&f, res))),
                    Err(e) => s.push_str(&format!("{}:Err({}) ", name.as_str(), crate::digest::error_kind(&e))),
                }
            }
            let mut xs: Vec<(&Name, &Ref<XObject>)> = resources.xobjects.iter().collect();
            xs.sort_by(|a, b| a.0.cmp(b.0));
            for (name, xr) in xs {
                s.push_str(&format!("{}:@{} ", name.as_str(), xr.get_inner().id));
            }
        }
        Err(e) => s.push_str(&format!("resources=Err({}) ", crate::digest::error_kind(&e))),
    }
    match &page.contents {
        Some(c) => match c.operations(res) {
            Ok(ops) => s.push_str(&ops_digest(&ops)),
            Err(e) => s.push_str(&format!("ops=Err({})", crate::digest::error_kind(&e))),
        },
        None => s.push_str("no contents"),
    }
    Answer::ok_text(s)
}

/// Execute one operation. `own_resolver`: page look-ups create their own resolver the way
/// `File::get_page` does; otherwise everything goes through `res`.
pub fn exec(file: &SimFile, res: &impl Resolve, own_resolver: bool, op: &Op) -> Answer {
    match *op {
        Op::Resolve(id) => answer(res.resolve(PlainRef { id, gen: 0 })),
        Op::Get(ty, id) => match ty {
            Ty::Pages => answer_text(res.get::<PagesNode>(r(id)).map(|n| format!("@{} {}", n.get_ref().get_inner().id, node_text(&n)))),
            Ty::Font => answer(res.get::<Font>(r(id))),
            Ty::XObject => answer(res.get::<XObject>(r(id))),
            Ty::ObjStm => objstm_answer(res, id),
            // the Debug form of a stream shows its length only: the filter list with its parameters is part of the answer
            Ty::Stream => answer_text(res.get::<Stream<()>>(r(id)).map(|s| format!("{:?} filters={}", *s, crate::digest::debug_bounded(&s.info.filters)))),
            Ty::NameTree => answer(res.get::<NameTree<Primitive>>(r(id))),
            Ty::NumTree => answer(res.get::<NumberTree<PageLabel>>(r(id))),
            Ty::Outline => answer(res.get::<OutlineItem>(r(id))),
            Ty::Field => answer(res.get::<FieldDictionary>(r(id))),
            Ty::Annot => answer_text(res.get::<Annot>(r(id)).map(|a| annot_text(&a))),
            Ty::Resources => answer(res.get::<Resources>(r(id))),
            Ty::Prim => answer(res.get::<Primitive>(r(id))),
        },
        Op::GetPage(n) => answer_text(page_of(file, res, own_resolver, n).map(|p| format!("@{} {}", p.get_ref().get_inner().id, page_text(&p)))),
        Op::StreamData(id) => match res.get::<Stream<()>>(r(id)) {
            Ok(s) => match (*s).data(res) {
                Ok(d) => Answer::ok_bytes(&d),
                Err(e) => Answer::err(&e),
            },
            Err(e) => Answer::err(&e),
        },
        Op::RawImage(id) | Op::ImageData(id) => match res.get::<XObject>(r(id)) {
            Ok(x) => match *x {
                XObject::Image(ref img) => {
                    if matches!(op, Op::RawImage(_)) {
                        match img.raw_image_data(res) {
                            Ok((d, f)) => {
                                let mut a = Answer::ok_bytes(&d);
                                let fs = format!("{:?}", f);
                                a.digest ^= crate::digest::hash_str(&fs);
                                a.text.push_str(&format!(" then {}", fs.chars().take(40).collect::<String>()));
                                a
                            }
                            Err(e) => Answer::err(&e),
                        }
                    } else {
                        match img.image_data(res) {
                            Ok(d) => Answer::ok_bytes(&d),
                            Err(e) => Answer::err(&e),
                        }
                    }
                }
                _ => Answer::ok_text("not an image".into()),
            },
            Err(e) => Answer::err(&e),
        },
        Op::PageWalk(n) => page_walk(file, res, own_resolver, n),
        Op::ImageStreamData(id) => match res.get::<XObject>(r(id)) {
            Ok(x) => match *x {
                XObject::Image(ref img) => match img.inner.data(res) {
                    Ok(d) => Answer::ok_bytes(&d),
                    Err(e) => Answer::err(&e),
                },
                _ => Answer::ok_text("not an image".into()),
            },
            Err(e) => Answer::err(&e),
        },
        Op::FormOps(id) => match res.get::<XObject>(r(id)) {
            Ok(x) => match *x {
                XObject::Form(ref f) => match f.operations(res) {
                    Ok(ops) => Answer::ok_text(ops_digest(&ops)),
                    Err(e) => Answer::err(&e),
                },
                _ => Answer::ok_text("not a form".into()),
            },
            Err(e) => Answer::err(&e),
        },
        Op::Trees => {
            let root = file.get_root();
            let mut s = String::new();
            if let Some(names) = &root.names {
                if let Some(d) = &names.dests {
                    let mut items: Vec<String> = vec![];
                    let r = d.walk(res, &mut |k, v| items.push(format!("{:?}={}", k, crate::digest::canon(&crate::digest::debug_bounded(v)))));
                    s.push_str(&format!("dests[{}]:{:?} ", items.join(";"), r.map_err(|e| crate::digest::error_kind(&e))));
                }
            }
            if let Some(labels) = &root.page_labels {
                let mut items: Vec<String> = vec![];
                let r = labels.walk(res, &mut |k, v| items.push(format!("{}={}", k, crate::digest::canon(&crate::digest::debug_bounded(v)))));
                s.push_str(&format!("labels[{}]:{:?} ", items.join(";"), r.map_err(|e| crate::digest::error_kind(&e))));
            }
            if let Some(o) = &root.outlines {
                let mut next = o.first;
                let mut n = 0;
                while let Some(rf) = next {
                    n += 1;
                    if n > 16 {
                        break;
                    }
                    match res.get(rf) {
                        Ok(item) => {
                            s.push_str(&format!("outline {:?};", item.title));
                            next = item.next;
                        }
                        Err(e) => {
                            s.push_str(&format!("outline Err({});", crate::digest::error_kind(&e)));
                            break;
                        }
                    }
                }
            }
            Answer::ok_text(s)
        }
        Op::LazyAnnots(n) => match page_of(file, res, own_resolver, n) {
            Ok(p) => answer_text(p.annotations.load(res).map(|v| {
                let items: Vec<String> = v.iter().map(|a| match a {
                    MaybeRef::Direct(a) => format!("direct {}", annot_text(a)),
                    MaybeRef::Indirect(a) => format!("@{} {}", a.get_ref().get_inner().id, annot_text(a)),
                }).collect();
                format!("[{}]", items.join(";"))
            })),
            Err(e) => Answer::err(&e),
        },
        Op::LazyFont(n) => match page_of(file, res, own_resolver, n) {
            Ok(p) => match p.resources() {
                Ok(rs) => {
                    let mut names: Vec<&Name> = rs.fonts.keys().collect();
                    names.sort();
                    match names.first() {
                        Some(nm) => answer(rs.fonts[*nm].load(res)),
                        None => Answer::ok_text("no fonts".into()),
                    }
                }
                Err(e) => Answer::err(&e),
            },
            Err(e) => Answer::err(&e),
        },
    }
}

// ---------------------------------------------------------------------------------------------
// document inventory

#[derive(Clone, Copy, Debug, PartialEq, Eq, PartialOrd, Ord)]
pub enum ObjKind {
    Pages,
    Font,
    Image,
    Form,
    ObjStm,
    XRef,
    Stream,
    NameTree,
    NumTree,
    Outline,
    Field,
    Annot,
    Resources,
    /// a dictionary of no recognised type
    Other,
    /// not a dictionary or stream (integer, array, name, ...)
    Scalar,
    Unreadable,
}

#[derive(Clone, Debug)]
pub struct Inventory {
    pub size: u64,
    pub n_pages: u32,
    pub objects: Vec<(u64, ObjKind)>,
    pub loadable: bool,
    /// object numbers the trailer refers to directly (Root, Info, Encrypt, ...)
    pub trailer_refs: Vec<u64>,
    /// object numbers read while the document is opened (everything the typed load of the trailer
    /// and catalog depends on); observed through the Log seam
    pub structural: Vec<u64>,
    pub encrypted: bool,
}

fn classify(p: &Primitive) -> ObjKind {
    let name_of = |d: &pdf::primitive::Dictionary, k: &str| -> Option<String> { d.get(k).and_then(|v| v.as_name().ok()).map(|s| s.to_string()) };
    match p {
        Primitive::Stream(s) => {
            let d = &s.info;
            match (name_of(d, "Type").as_deref(), name_of(d, "Subtype").as_deref()) {
                (Some("ObjStm"), _) => ObjKind::ObjStm,
                (Some("XRef"), _) => ObjKind::XRef,
                (_, Some("Image")) => ObjKind::Image,
                (_, Some("Form")) => ObjKind::Form,
                _ => ObjKind::Stream,
            }
        }
        Primitive::Dictionary(d) => match name_of(d, "Type").as_deref() {
            Some("Page") | Some("Pages") => ObjKind::Pages,
            Some("Font") => ObjKind::Font,
            Some("Annot") => ObjKind::Annot,
            _ => {
                if d.get("Nums").is_some() {
                    ObjKind::NumTree
                } else if d.get("Names").is_some() || (d.get("Kids").is_some() && d.get("Limits").is_some()) {
                    ObjKind::NameTree
                } else if d.get("Title").is_some() {
                    ObjKind::Outline
                } else if d.get("FT").is_some() || d.get("T").is_some() {
                    ObjKind::Field
                } else if d.get("Subtype").is_some() && d.get("Rect").is_some() {
                    ObjKind::Annot
                } else if d.get("Font").is_some() || d.get("XObject").is_some() || d.get("ExtGState").is_some() {
                    ObjKind::Resources
                } else {
                    ObjKind::Other
                }
            }
        },
        _ => ObjKind::Scalar,
    }
}

pub fn classify_pub(p: &Primitive) -> ObjKind {
    classify(p)
}

fn trailer_refs(bytes: &[u8], password: &[u8]) -> Vec<u64> {
    use pdf::file::{NoCache, NoLog, Storage};
    let mut out = vec![];
    if let Ok(mut st) = Storage::with_cache(bytes.to_vec(), ParseOptions::strict(), NoCache, NoCache, NoLog) {
        if let Ok(tr) = st.load_storage_and_trailer_password(password) {
            for (_, v) in tr.iter() {
                if let Primitive::Reference(r) = v {
                    out.push(r.id);
                }
            }
        }
    }
    out
}

pub fn inventory(bytes: &[u8], password: &[u8]) -> Inventory {
    let ctl = SimCtl::new(false, false);
    *ctl.touched.lock().unwrap() = Some(Default::default());
    let opened = open(bytes, &ctl, false, password);
    let structural: Vec<u64> = ctl.touched.lock().unwrap().take().map(|s| s.into_iter().collect()).unwrap_or_default();
    match opened {
        Err(_) => Inventory { size: 0, n_pages: 0, objects: vec![], loadable: false, trailer_refs: vec![], structural: vec![], encrypted: false },
        Ok(file) => {
            let size = file.trailer.size.max(0) as u64;
            let res = file.resolver();
            let mut objects = vec![];
            for id in 1..size.min(4000) {
                let kind = match res.resolve(PlainRef { id, gen: 0 }) {
                    Ok(p) => classify(&p),
                    Err(_) => ObjKind::Unreadable,
                };
                objects.push((id, kind));
            }
            Inventory { size, n_pages: file.num_pages(), objects, loadable: true, trailer_refs: trailer_refs(bytes, password), structural, encrypted: file.trailer.encrypt_dict.is_some() }
        }
    }
}

pub fn right_ops(id: u64, kind: ObjKind) -> Vec<Op> {
    let mut v = vec![Op::Resolve(id)];
    match kind {
        ObjKind::Pages => v.push(Op::Get(Ty::Pages, id)),
        ObjKind::Font => v.push(Op::Get(Ty::Font, id)),
        ObjKind::Image => v.extend([Op::Get(Ty::XObject, id), Op::StreamData(id), Op::RawImage(id), Op::ImageData(id), Op::Get(Ty::Stream, id), Op::ImageStreamData(id)]),
        ObjKind::Form => v.extend([Op::Get(Ty::XObject, id), Op::StreamData(id), Op::Get(Ty::Stream, id), Op::FormOps(id)]),
        ObjKind::ObjStm => v.extend([Op::Get(Ty::ObjStm, id), Op::StreamData(id), Op::Get(Ty::Stream, id)]),
        ObjKind::Stream | ObjKind::XRef => v.extend([Op::StreamData(id), Op::Get(Ty::Stream, id)]),
        ObjKind::NameTree => v.push(Op::Get(Ty::NameTree, id)),
        ObjKind::NumTree => v.push(Op::Get(Ty::NumTree, id)),
        ObjKind::Outline => v.push(Op::Get(Ty::Outline, id)),
        ObjKind::Field => v.push(Op::Get(Ty::Field, id)),
        ObjKind::Annot => v.push(Op::Get(Ty::Annot, id)),
        ObjKind::Resources => v.push(Op::Get(Ty::Resources, id)),
        ObjKind::Other | ObjKind::Scalar => v.push(Op::Get(Ty::Prim, id)),
        ObjKind::Unreadable => {}
    }
    v
}

/// One wrong-type load for the object (always a typed get of a type the object is not).
pub fn wrong_op(id: u64, kind: ObjKind, rng: &mut Rng) -> Op {
    let candidates: Vec<Ty> = ALL_TY
        .iter()
        .cloned()
        .filter(|t| *t != Ty::Prim)
        .filter(|t| !right_ops(id, kind).contains(&Op::Get(*t, id)))
        .collect();
    Op::Get(*rng.pick(&candidates), id)
}
