//! Baton scheduler: simulated clients are real OS threads released one at a time.
//! A client executes only while it holds the baton; at every yield point the scheduler
//! (driven by the run's PRNG, or by a recorded decision list on replay) decides who runs next.
//! Blocking on in-flight cache keys and on Lazy cells is simulated here, so "all live threads
//! blocked" is detected exactly and no real blocking primitive is contended under the baton.

use crate::rng::{Hasher64, Rng};
use std::cell::RefCell;
use std::collections::BTreeMap;
use std::sync::{Arc, Condvar, Mutex};
use std::time::{Duration, Instant};

#[derive(Clone, Copy, Debug, PartialEq, Eq, PartialOrd, Ord)]
pub enum ResKind {
    ObjCache,
    StmCache,
    Lazy,
}
pub type Res = (ResKind, u64);

#[derive(Clone, Copy, Debug, PartialEq, Eq)]
pub enum Kind {
    Start,
    LogGet,
    LoadObject,
    CacheEnter,
    ComputeStart,
    ComputeEnd,
    CacheExit,
    LazyEnter,
    LazyExit,
    OpBoundary,
    Block,
    Finish,
}

#[derive(Clone, Copy, Debug, PartialEq)]
enum Status {
    Runnable,
    Blocked(Res),
    Done,
}

#[derive(Clone, Debug, PartialEq)]
pub enum Policy {
    /// uniform choice among runnable threads at every point
    Random,
    /// random priorities, `d` priority change points at random steps (PCT style)
    Pct { change_points: Vec<u64> },
    /// keep running the current thread; preempt only at the listed steps
    Preempt { at: Vec<u64> },
    /// follow a recorded decision list (replay / shrinking); falls back to lowest runnable tid
    Replay,
}

#[derive(Clone, Debug, Default)]
pub struct SchedStats {
    pub steps: u64,
    pub switches: u64,
    pub waits: u64,
    pub lazy_waits: u64,
    pub max_in_compute_same_key: u64,
    pub switch_inside_guard: bool,
}

#[derive(Clone, Debug)]
pub struct Deadlock {
    /// (waiting tid, resource, owner tid)
    pub waits: Vec<(usize, Res, Option<usize>)>,
}

struct State {
    status: Vec<Status>,
    current: Option<usize>,
    aborted: bool,
    rng: Rng,
    policy: Policy,
    prio: Vec<u64>,
    replay: Vec<u8>,
    replay_pos: usize,
    replay_diverged: bool,
    decisions: Vec<u8>,
    trace: Hasher64,
    inflight: BTreeMap<Res, usize>,
    guard_depth: Vec<u32>,
    stats: SchedStats,
    deadlock: Option<Deadlock>,
    step_budget: u64,
    budget_exceeded: bool,
    last_progress: Instant,
}

pub struct Sched {
    m: Mutex<State>,
    cv: Condvar,
}

/// Payload used to unwind simulated threads when a run is aborted (deadlock, budget).
pub struct SimAbort;

thread_local! {
    static CURRENT: RefCell<Option<(Arc<Sched>, usize)>> = const { RefCell::new(None) };
}

pub fn current() -> Option<(Arc<Sched>, usize)> {
    CURRENT.with(|c| c.borrow().clone())
}

/// Yield point callable from any seam; no-op outside a scheduled run.
pub fn yield_here(kind: Kind, key: u64) {
    if let Some((s, tid)) = current() {
        s.yield_point(tid, kind, key);
    }
}
pub fn acquire_here(res: Res) {
    if let Some((s, tid)) = current() {
        s.acquire(tid, res);
    }
}
pub fn release_here(res: Res) {
    if let Some((s, tid)) = current() {
        s.release(tid, res);
    }
}
pub fn wait_free_here(res: Res) {
    if let Some((s, tid)) = current() {
        s.wait_free(tid, res);
    }
}
pub fn guard_delta_here(d: i32) {
    if let Some((s, tid)) = current() {
        let mut st = s.m.lock().unwrap();
        let g = &mut st.guard_depth[tid];
        *g = (*g as i64 + d as i64).max(0) as u32;
    }
}

pub struct RunOutcome {
    pub decisions: Vec<u8>,
    pub trace_hash: u64,
    pub stats: SchedStats,
    pub deadlock: Option<Deadlock>,
    pub budget_exceeded: bool,
    pub replay_diverged: bool,
    pub stalled: bool,
}

impl Sched {
    pub fn new(n: usize, mut rng: Rng, policy: Policy, replay: Vec<u8>, step_budget: u64) -> Arc<Sched> {
        let prio: Vec<u64> = (0..n).map(|_| rng.next_u64() | (1 << 63)).collect();
        Arc::new(Sched {
            m: Mutex::new(State {
                status: vec![Status::Runnable; n],
                current: None,
                aborted: false,
                rng,
                policy,
                prio,
                replay,
                replay_pos: 0,
                replay_diverged: false,
                decisions: vec![],
                trace: Hasher64::new(),
                inflight: BTreeMap::new(),
                guard_depth: vec![0; n],
                stats: SchedStats::default(),
                deadlock: None,
                step_budget,
                budget_exceeded: false,
                last_progress: Instant::now(),
            }),
            cv: Condvar::new(),
        })
    }

    fn choose(st: &mut State, me: Option<usize>) -> Option<usize> {
        let runnable: Vec<usize> = (0..st.status.len()).filter(|&t| st.status[t] == Status::Runnable).collect();
        if runnable.is_empty() {
            return None;
        }
        let step = st.stats.steps;
        let pick = match &st.policy {
            Policy::Replay => {
                let want = st.replay.get(st.replay_pos).map(|&t| t as usize);
                st.replay_pos += 1;
                match want {
                    Some(t) if runnable.contains(&t) => t,
                    Some(_) => {
                        st.replay_diverged = true;
                        match me {
                            Some(m) if runnable.contains(&m) => m,
                            _ => runnable[0],
                        }
                    }
                    // past the end of the list: keep running the same thread ("no more preemptions")
                    None => match me {
                        Some(m) if runnable.contains(&m) => m,
                        _ => runnable[0],
                    },
                }
            }
            Policy::Random => runnable[st.rng.usize(runnable.len())],
            Policy::Pct { change_points } => {
                if change_points.contains(&step) {
                    if let Some(m) = me {
                        // demote the running thread below everyone else
                        let idx = change_points.iter().position(|&c| c == step).unwrap_or(0);
                        st.prio[m] = (change_points.len() - idx) as u64;
                    }
                }
                *runnable.iter().max_by_key(|&&t| st.prio[t]).unwrap()
            }
            Policy::Preempt { at } => match me {
                Some(m) if runnable.contains(&m) && !at.contains(&step) => m,
                Some(m) => {
                    let others: Vec<usize> = runnable.iter().cloned().filter(|&t| t != m).collect();
                    if others.is_empty() {
                        m
                    } else {
                        others[st.rng.usize(others.len())]
                    }
                }
                None => runnable[st.rng.usize(runnable.len())],
            },
        };
        st.decisions.push(pick as u8);
        Some(pick)
    }

    fn record(st: &mut State, tid: usize, kind: Kind, key: u64) {
        if std::env::var("VERIF_TRACE").is_ok() {
            eprintln!("  step {:3} T{} {:?} {}", st.stats.steps, tid, kind, key);
        }
        st.stats.steps += 1;
        st.trace.u64(((tid as u64) << 56) ^ ((kind as u64) << 48) ^ key);
        st.last_progress = Instant::now();
        if st.stats.steps > st.step_budget && !st.aborted {
            st.budget_exceeded = true;
            st.aborted = true;
        }
    }

    /// hand the baton to `next` and wait until it comes back to `tid`
    fn pass_and_wait<'a>(&'a self, mut st: std::sync::MutexGuard<'a, State>, tid: usize, next: Option<usize>) {
        if next != Some(tid) {
            st.stats.switches += 1;
            if st.guard_depth[tid] > 0 && st.status[tid] != Status::Done {
                st.stats.switch_inside_guard = true;
            }
            st.current = next;
            self.cv.notify_all();
            while st.current != Some(tid) && !st.aborted {
                st = self.cv.wait(st).unwrap();
            }
        }
        if st.aborted && st.status[tid] != Status::Done {
            self.abort_exit(st, tid);
        }
    }

    /// In abort mode threads unwind one at a time, in tid order, so that library drop code
    /// (the recursion guard's pop) never runs concurrently even while a run is being torn down.
    fn abort_exit<'a>(&'a self, mut st: std::sync::MutexGuard<'a, State>, tid: usize) -> ! {
        self.cv.notify_all();
        while (0..tid).any(|t| st.status[t] != Status::Done) {
            st = self.cv.wait(st).unwrap();
        }
        drop(st);
        std::panic::resume_unwind(Box::new(SimAbort));
    }

    pub fn abort(&self) {
        let mut st = self.m.lock().unwrap();
        st.aborted = true;
        self.cv.notify_all();
    }

    pub fn yield_point(&self, tid: usize, kind: Kind, key: u64) {
        let mut st = self.m.lock().unwrap();
        if st.aborted {
            self.abort_exit(st, tid);
        }
        debug_assert_eq!(st.current, Some(tid));
        Self::record(&mut st, tid, kind, key);
        let next = Self::choose(&mut st, Some(tid));
        self.pass_and_wait(st, tid, next);
    }

    /// Mark `res` as being computed by `tid` (called at the start of a cache compute / Lazy init).
    pub fn acquire(&self, tid: usize, res: Res) {
        let mut st = self.m.lock().unwrap();
        st.inflight.insert(res, tid);
        let same = st.inflight.iter().filter(|(r, _)| r.1 == res.1 && r.0 == res.0).count() as u64;
        st.stats.max_in_compute_same_key = st.stats.max_in_compute_same_key.max(same);
    }
    pub fn release(&self, tid: usize, res: Res) {
        let mut st = self.m.lock().unwrap();
        if st.inflight.get(&res) == Some(&tid) {
            st.inflight.remove(&res);
        }
        for s in st.status.iter_mut() {
            if *s == Status::Blocked(res) {
                *s = Status::Runnable;
            }
        }
    }
    /// Simulated blocking: returns once `res` is not in flight (owned by another thread).
    pub fn wait_free(&self, tid: usize, res: Res) {
        loop {
            let mut st = self.m.lock().unwrap();
            if st.aborted {
                self.abort_exit(st, tid);
            }
            match st.inflight.get(&res).cloned() {
                None => return,
                Some(owner) => {
                    Self::record(&mut st, tid, Kind::Block, if res.0 == ResKind::Lazy { 0 } else { res.1 } ^ ((res.0 as u64) << 40));
                    if res.0 == ResKind::Lazy {
                        st.stats.lazy_waits += 1;
                    } else {
                        st.stats.waits += 1;
                    }
                    st.status[tid] = Status::Blocked(res);
                    let next = Self::choose(&mut st, None);
                    if next.is_none() || owner == tid {
                        // nobody can run (or a thread waits for itself): deadlock
                        let waits = (0..st.status.len())
                            .filter_map(|t| match st.status[t] {
                                Status::Blocked(r) => Some((t, r, st.inflight.get(&r).cloned())),
                                _ => None,
                            })
                            .collect();
                        st.deadlock = Some(Deadlock { waits });
                        st.aborted = true;
                        self.abort_exit(st, tid);
                    }
                    self.pass_and_wait(st, tid, next);
                }
            }
        }
    }

    fn finish(&self, tid: usize) {
        let mut st = self.m.lock().unwrap();
        st.status[tid] = Status::Done;
        // a finished thread cannot own anything; drop stale ownership (after an abort) and wake waiters
        let owned: Vec<Res> = st.inflight.iter().filter(|(_, &o)| o == tid).map(|(r, _)| *r).collect();
        for r in owned {
            st.inflight.remove(&r);
            for s in st.status.iter_mut() {
                if *s == Status::Blocked(r) {
                    *s = Status::Runnable;
                }
            }
        }
        if st.aborted {
            self.cv.notify_all();
            return;
        }
        Self::record(&mut st, tid, Kind::Finish, 0);
        let next = Self::choose(&mut st, None);
        if next.is_none() && st.status.iter().any(|s| matches!(s, Status::Blocked(_))) {
            let waits = (0..st.status.len())
                .filter_map(|t| match st.status[t] {
                    Status::Blocked(r) => Some((t, r, st.inflight.get(&r).cloned())),
                    _ => None,
                })
                .collect();
            st.deadlock = Some(Deadlock { waits });
            st.aborted = true;
        }
        st.current = next;
        st.stats.switches += 1;
        self.cv.notify_all();
    }

    /// Run `bodies` (one per simulated thread) to completion under this scheduler.
    /// Each body's panic (other than SimAbort) is returned as Err(message).
    pub fn run<'env, T: Send>(self: &Arc<Self>, bodies: Vec<Box<dyn FnOnce(usize) -> T + Send + 'env>>, stack: usize) -> (Vec<Option<std::thread::Result<T>>>, RunOutcome) {
        let n = bodies.len();
        let mut results: Vec<Option<std::thread::Result<T>>> = (0..n).map(|_| None).collect();
        let mut stalled = false;
        std::thread::scope(|scope| {
            let mut handles = vec![];
            for (tid, body) in bodies.into_iter().enumerate() {
                let me = self.clone();
                let h = std::thread::Builder::new()
                    .stack_size(stack)
                    .spawn_scoped(scope, move || {
                        CURRENT.with(|c| *c.borrow_mut() = Some((me.clone(), tid)));
                        // wait for the first turn
                        {
                            let mut st = me.m.lock().unwrap();
                            while st.current != Some(tid) && !st.aborted {
                                st = me.cv.wait(st).unwrap();
                            }
                        }
                        let r = std::panic::catch_unwind(std::panic::AssertUnwindSafe(|| {
                            {
                                let st = me.m.lock().unwrap();
                                if st.aborted {
                                    me.abort_exit(st, tid);
                                }
                            }
                            body(tid)
                        }));
                        CURRENT.with(|c| *c.borrow_mut() = None);
                        if let Err(ref e) = r {
                            if !e.is::<SimAbort>() {
                                // a real panic in the code under test: the run already has its violation;
                                // tear the rest down in order (a stuck in-process cache entry would
                                // otherwise block the next reader of that key for real)
                                me.abort();
                            }
                        }
                        me.finish(tid);
                        r
                    })
                    .expect("spawn");
                handles.push(h);
            }
            // first decision: who starts
            {
                let mut st = self.m.lock().unwrap();
                let next = Self::choose(&mut st, None);
                st.current = next;
                st.last_progress = Instant::now();
                self.cv.notify_all();
            }
            // stall watchdog: the baton holder reached no yield point for 30 s of wall clock
            loop {
                let mut st = self.m.lock().unwrap();
                if st.status.iter().all(|s| *s == Status::Done) {
                    break;
                }
                if st.last_progress.elapsed() > Duration::from_secs(30) {
                    stalled = true;
                    break;
                }
                st = self.cv.wait_timeout(st, Duration::from_millis(200)).unwrap().0;
                drop(st);
            }
            if stalled {
                // cannot recover parked/blocked real threads: the worker process reports and exits
                eprintln!("STALL: baton holder made no progress for 30 s");
                std::process::exit(97);
            }
            for (i, h) in handles.into_iter().enumerate() {
                results[i] = Some(h.join().unwrap_or_else(|e| Err(e)));
            }
        });
        let st = self.m.lock().unwrap();
        let out = RunOutcome {
            decisions: st.decisions.clone(),
            trace_hash: st.trace.finish(),
            stats: st.stats.clone(),
            deadlock: st.deadlock.clone(),
            budget_exceeded: st.budget_exceeded,
            replay_diverged: st.replay_diverged,
            stalled,
        };
        (results, out)
    }
}

/// The numeric value of a fresh thread's `ThreadId` (std hands them out from a process-wide counter).
/// A library under test may let thread ids decide something (a lock shard picked by hashing the id);
/// the simulator makes that counter a recorded quantity: every case notes the id handed out just before
/// its simulated threads are spawned, and a replay advances the counter to the same value first.
pub fn thread_id_probe() -> u64 {
    std::thread::spawn(|| {
        let t = format!("{:?}", std::thread::current().id());
        t.trim_start_matches("ThreadId(").trim_end_matches(')').parse::<u64>().unwrap_or(0)
    })
    .join()
    .unwrap_or(0)
}

/// Advance the thread-id counter until a probe returns at least `target` (no-op if it is already past).
pub fn advance_thread_ids_to(target: u64) -> u64 {
    loop {
        let id = thread_id_probe();
        if id >= target || id == 0 {
            return id;
        }
    }
}
