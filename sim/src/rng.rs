//! The only source of randomness in the harness. One integer decides everything:
//! VERIF_SEED -> per-property stream -> per-run seed -> xoshiro256** for every choice of the run.
//! Logging never draws from it.

pub fn splitmix64(x: u64) -> u64 {
    let mut z = x.wrapping_add(0x9E37_79B9_7F4A_7C15);
    z = (z ^ (z >> 30)).wrapping_mul(0xBF58_476D_1CE4_E5B9);
    z = (z ^ (z >> 27)).wrapping_mul(0x94D0_49BB_1331_11EB);
    z ^ (z >> 31)
}

pub fn fnv64(bytes: &[u8]) -> u64 {
    let mut h: u64 = 0xcbf2_9ce4_8422_2325;
    for &b in bytes {
        h ^= b as u64;
        h = h.wrapping_mul(0x0000_0100_0000_01B3);
    }
    h
}

/// Incremental FNV-1a used for trace hashes (order-sensitive).
#[derive(Clone, Copy)]
pub struct Hasher64(pub u64);
impl Hasher64 {
    pub fn new() -> Self {
        Hasher64(0xcbf2_9ce4_8422_2325)
    }
    pub fn bytes(&mut self, b: &[u8]) {
        for &x in b {
            self.0 ^= x as u64;
            self.0 = self.0.wrapping_mul(0x0000_0100_0000_01B3);
        }
    }
    pub fn u64(&mut self, v: u64) {
        self.bytes(&v.to_le_bytes());
    }
    pub fn str(&mut self, s: &str) {
        self.bytes(s.as_bytes());
        self.bytes(&[0xff]);
    }
    pub fn finish(&self) -> u64 {
        splitmix64(self.0)
    }
}

pub fn run_seed(verif_seed: u64, property: &str, i: u64) -> u64 {
    splitmix64(verif_seed ^ fnv64(property.as_bytes()) ^ splitmix64(i))
}

#[derive(Clone)]
pub struct Rng {
    s: [u64; 4],
}

impl Rng {
    pub fn new(seed: u64) -> Rng {
        let mut x = seed;
        let mut s = [0u64; 4];
        for slot in s.iter_mut() {
            x = splitmix64(x);
            *slot = x;
        }
        if s == [0; 4] {
            s[0] = 1;
        }
        Rng { s }
    }
    pub fn next_u64(&mut self) -> u64 {
        let result = self.s[1].wrapping_mul(5).rotate_left(7).wrapping_mul(9);
        let t = self.s[1] << 17;
        self.s[2] ^= self.s[0];
        self.s[3] ^= self.s[1];
        self.s[1] ^= self.s[2];
        self.s[0] ^= self.s[3];
        self.s[2] ^= t;
        self.s[3] = self.s[3].rotate_left(45);
        result
    }
    /// uniform in 0..n (n > 0)
    pub fn below(&mut self, n: u64) -> u64 {
        debug_assert!(n > 0);
        // bias is irrelevant for this use
        if n <= (1u64 << 32) {
            ((self.next_u64() >> 32) * n) >> 32
        } else {
            self.next_u64() % n
        }
    }
    pub fn usize(&mut self, n: usize) -> usize {
        if n <= (u32::MAX as usize) {
            self.below(n as u64) as usize
        } else {
            (self.next_u64() % (n as u64)) as usize
        }
    }
    /// uniform in lo..=hi
    pub fn range(&mut self, lo: i64, hi: i64) -> i64 {
        debug_assert!(hi >= lo);
        lo + (self.next_u64() % ((hi - lo + 1) as u64)) as i64
    }
    pub fn chance(&mut self, num: u64, den: u64) -> bool {
        self.below(den) < num
    }
    pub fn coin(&mut self) -> bool {
        self.next_u64() & 1 == 1
    }
    pub fn pick<'a, T>(&mut self, xs: &'a [T]) -> &'a T {
        &xs[self.usize(xs.len())]
    }
    pub fn shuffle<T>(&mut self, xs: &mut [T]) {
        for i in (1..xs.len()).rev() {
            let j = self.usize(i + 1);
            xs.swap(i, j);
        }
    }
    pub fn fork(&mut self) -> Rng {
        Rng::new(self.next_u64())
    }
}
