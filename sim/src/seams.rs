//! The seams the simulator owns: instrumented implementations of pdf's public `Cache` and `Log`
//! traits wrapping the *real* globalcache `SyncCache`, plus the callbacks for the cfg-guarded
//! hooks (decoded-byte counter, Lazy cell announcements).

use crate::sched::{self, Kind, ResKind};
use globalcache::CacheControl;
use pdf::any::AnySync;
use pdf::file::{Cache, Log, SyncCache};
use pdf::object::PlainRef;
use pdf::PdfError;
use std::cell::Cell;
use std::sync::atomic::{AtomicU64, Ordering};
use std::sync::{Arc, Mutex};

pub type ObjVal = Result<AnySync, Arc<PdfError>>;
pub type StmVal = Result<Arc<[u8]>, Arc<PdfError>>;
pub type RealObjCache = Arc<SyncCache<PlainRef, ObjVal>>;
pub type RealStmCache = Arc<SyncCache<PlainRef, StmVal>>;

/// Poll a future that is known to complete without suspending (SyncCache::clean).
fn poll_once<F: std::future::Future>(f: F) -> Option<F::Output> {
    use std::task::{Context, Poll, RawWaker, RawWakerVTable, Waker};
    fn noop(_: *const ()) {}
    fn clone(_: *const ()) -> RawWaker {
        RawWaker::new(std::ptr::null(), &VTABLE)
    }
    static VTABLE: RawWakerVTable = RawWakerVTable::new(clone, noop, noop, noop);
    let waker = unsafe { Waker::from_raw(RawWaker::new(std::ptr::null(), &VTABLE)) };
    let mut cx = Context::from_waker(&waker);
    let mut f = std::pin::pin!(f);
    match f.as_mut().poll(&mut cx) {
        Poll::Ready(v) => Some(v),
        Poll::Pending => None,
    }
}

/// Per-run control block shared by the caches and the log of one open document.
pub struct SimCtl {
    pub obj_cache: Option<RealObjCache>,
    pub stm_cache: Option<RealStmCache>,
    /// deterministic work counters
    pub gets: AtomicU64,
    pub resolves: AtomicU64,
    pub computes: AtomicU64,
    pub stm_computes: AtomicU64,
    /// eviction faults: fire when the event counter (gets + resolves) reaches these values
    pub evict_at: Mutex<Vec<u64>>,
    pub evictions_fired: AtomicU64,
    pub evicted_entries: AtomicU64,
    /// budget on log events; exceeded => the walker aborts the case (meter violation)
    pub event_budget: AtomicU64,
    pub budget_tripped: AtomicU64,
    /// object-cache keys currently inside `compute`, with multiplicity (two simulated threads can
    /// be inside compute for one key when there is no cache or after an eviction)
    pub in_compute: Mutex<Vec<u64>>,
    pub compute_overlap: AtomicU64,
    /// when Some: every object number passed to the Log seam is recorded
    pub touched: Mutex<Option<std::collections::BTreeSet<u64>>>,
}

impl SimCtl {
    pub fn new(obj: bool, stm: bool) -> Arc<SimCtl> {
        Arc::new(SimCtl {
            obj_cache: if obj { Some(SyncCache::new()) } else { None },
            stm_cache: if stm { Some(SyncCache::new()) } else { None },
            gets: AtomicU64::new(0),
            resolves: AtomicU64::new(0),
            computes: AtomicU64::new(0),
            stm_computes: AtomicU64::new(0),
            evict_at: Mutex::new(vec![]),
            evictions_fired: AtomicU64::new(0),
            evicted_entries: AtomicU64::new(0),
            event_budget: AtomicU64::new(u64::MAX),
            budget_tripped: AtomicU64::new(0),
            in_compute: Mutex::new(vec![]),
            compute_overlap: AtomicU64::new(0),
            touched: Mutex::new(None),
        })
    }
    pub fn events(&self) -> u64 {
        self.gets.load(Ordering::Relaxed) + self.resolves.load(Ordering::Relaxed)
    }
    /// The eviction fault: every computed entry of both caches disappears (in-process entries stay,
    /// exactly what globalcache's own cleaner does with an infinite threshold).
    pub fn evict(&self) {
        self.evictions_fired.fetch_add(1, Ordering::Relaxed);
        if let Some(c) = &self.obj_cache {
            let _ = poll_once(c.clean(f64::INFINITY, 0.0));
        }
        if let Some(c) = &self.stm_cache {
            let _ = poll_once(c.clean(f64::INFINITY, 0.0));
        }
    }
    fn on_event(&self) {
        let n = self.events();
        if n > self.event_budget.load(Ordering::Relaxed) {
            self.budget_tripped.store(1, Ordering::Relaxed);
            std::panic::panic_any(MeterTrip("log-events"));
        }
        let fire = {
            let mut ev = self.evict_at.lock().unwrap();
            if let Some(pos) = ev.iter().position(|&e| e == n) {
                ev.remove(pos);
                true
            } else {
                false
            }
        };
        if fire {
            self.evict();
        }
    }
}

/// panic payload for a tripped resource meter (caught by the walker, reported as meter violation)
pub struct MeterTrip(pub &'static str);

#[derive(Clone)]
pub struct SimObjCache(pub Arc<SimCtl>);
#[derive(Clone)]
pub struct SimStmCache(pub Arc<SimCtl>);
#[derive(Clone)]
pub struct SimLog(pub Arc<SimCtl>);

struct Release(sched::Res);
impl Drop for Release {
    fn drop(&mut self) {
        sched::release_here(self.0);
    }
}
struct InCompute<'a>(&'a SimCtl, u64);
impl<'a> InCompute<'a> {
    fn enter(ctl: &'a SimCtl, k: u64) -> Self {
        let mut v = ctl.in_compute.lock().unwrap();
        if v.contains(&k) {
            ctl.compute_overlap.fetch_add(1, Ordering::Relaxed);
        }
        v.push(k);
        InCompute(ctl, k)
    }
}
impl<'a> Drop for InCompute<'a> {
    fn drop(&mut self) {
        let mut v = self.0.in_compute.lock().unwrap_or_else(|e| e.into_inner());
        if let Some(p) = v.iter().position(|&x| x == self.1) {
            v.remove(p);
        }
    }
}
struct GuardDepth;
impl Drop for GuardDepth {
    fn drop(&mut self) {
        sched::guard_delta_here(-1);
    }
}

impl Cache<ObjVal> for SimObjCache {
    fn get_or_compute(&self, key: PlainRef, compute: impl FnOnce() -> ObjVal) -> ObjVal {
        let k = key.id;
        sched::guard_delta_here(1);
        let _gd = GuardDepth;
        sched::yield_here(Kind::CacheEnter, k);
        let ctl = &self.0;
        let v = match &ctl.obj_cache {
            Some(real) => {
                let res = (ResKind::ObjCache, key.id ^ (key.gen << 48));
                sched::wait_free_here(res);
                real.get(key, || {
                    sched::acquire_here(res);
                    let _rel = Release(res);
                    ctl.computes.fetch_add(1, Ordering::Relaxed);
                    let _ic = InCompute::enter(ctl, k);
                    sched::yield_here(Kind::ComputeStart, k);
                    let v = compute();
                    sched::yield_here(Kind::ComputeEnd, k);
                    v
                })
            }
            None => {
                ctl.computes.fetch_add(1, Ordering::Relaxed);
                let _ic = InCompute::enter(ctl, k);
                sched::yield_here(Kind::ComputeStart, k);
                let v = compute();
                sched::yield_here(Kind::ComputeEnd, k);
                v
            }
        };
        sched::yield_here(Kind::CacheExit, k);
        v
    }
    fn clear(&self) {
        if let Some(c) = &self.0.obj_cache {
            c.clear();
        }
    }
}

impl Cache<StmVal> for SimStmCache {
    fn get_or_compute(&self, key: PlainRef, compute: impl FnOnce() -> StmVal) -> StmVal {
        let k = key.id | (1 << 32);
        sched::yield_here(Kind::CacheEnter, k);
        let ctl = &self.0;
        let v = match &ctl.stm_cache {
            Some(real) => {
                let res = (ResKind::StmCache, key.id ^ (key.gen << 48));
                sched::wait_free_here(res);
                real.get(key, || {
                    sched::acquire_here(res);
                    let _rel = Release(res);
                    ctl.stm_computes.fetch_add(1, Ordering::Relaxed);
                    sched::yield_here(Kind::ComputeStart, k);
                    let v = compute();
                    sched::yield_here(Kind::ComputeEnd, k);
                    v
                })
            }
            None => {
                ctl.stm_computes.fetch_add(1, Ordering::Relaxed);
                sched::yield_here(Kind::ComputeStart, k);
                let v = compute();
                sched::yield_here(Kind::ComputeEnd, k);
                v
            }
        };
        sched::yield_here(Kind::CacheExit, k);
        v
    }
    fn clear(&self) {
        if let Some(c) = &self.0.stm_cache {
            c.clear();
        }
    }
}

impl Log for SimLog {
    fn load_object(&self, r: PlainRef) {
        if let Some(t) = self.0.touched.lock().unwrap().as_mut() {
            t.insert(r.id);
        }
        self.0.resolves.fetch_add(1, Ordering::Relaxed);
        self.0.on_event();
        sched::yield_here(Kind::LoadObject, r.id);
    }
    fn log_get(&self, r: PlainRef) {
        if let Some(t) = self.0.touched.lock().unwrap().as_mut() {
            t.insert(r.id);
        }
        self.0.gets.fetch_add(1, Ordering::Relaxed);
        self.0.on_event();
        sched::yield_here(Kind::LogGet, r.id);
    }
}

// ---------------------------------------------------------------------------------------------
// hook callbacks (registered once per process)

thread_local! {
    pub static DECODED_BYTES: Cell<u64> = const { Cell::new(0) };
}
static DECODED_TOTAL: AtomicU64 = AtomicU64::new(0);

fn hook_decoded(n: usize) {
    DECODED_BYTES.with(|c| c.set(c.get() + n as u64));
    DECODED_TOTAL.fetch_add(n as u64, Ordering::Relaxed);
}
fn hook_lazy_enter(addr: usize) {
    let res = (ResKind::Lazy, addr as u64);
    sched::yield_here(Kind::LazyEnter, 0);
    sched::wait_free_here(res);
    sched::acquire_here(res);
}
fn hook_lazy_exit(addr: usize) {
    let res = (ResKind::Lazy, addr as u64);
    sched::release_here(res);
    if !std::thread::panicking() {
        sched::yield_here(Kind::LazyExit, 0);
    }
}

pub fn install_hooks() {
    pdf::verif::set_hooks(pdf::verif::Hooks { decoded: hook_decoded, lazy_enter: hook_lazy_enter, lazy_exit: hook_lazy_exit });
}
pub fn decoded_bytes_thread() -> u64 {
    DECODED_BYTES.with(|c| c.get())
}
pub fn reset_decoded_thread() {
    DECODED_BYTES.with(|c| c.set(0));
}
