//! C02 — the newest cross-reference entry wins (DESIGN §4.4). Successive writers append revisions
//! to one append-only medium; after every append (= at every crash point that keeps whole
//! revisions) the library opens the medium and must see, for every object number, the value of the
//! most recent revision that mentions it.

use crate::conv::*;
use crate::digest::{error_kind, root_cause};
use crate::docgen::*;
use crate::framework::*;
use crate::ops;
use crate::rng::{run_seed, Hasher64, Rng};
use crate::seams::SimCtl;
use pdf::object::{PlainRef, Resolve};
use pdf::primitive::Primitive;
use pdf::PdfError;
use serde_json::{json, Value as J};
use std::collections::BTreeMap;

#[derive(Clone, Debug, PartialEq)]
pub enum Action {
    Direct(Body),
    Compressed(Val),
    Free,
}

#[derive(Clone, Debug, PartialEq)]
pub struct RevPlan {
    pub mentions: Vec<(u32, Action)>,
    pub xref_stream: bool,
    pub w_extra: [usize; 3],
    pub w0_zero: bool,
    pub cuts: Vec<u32>,
    pub xref_filter: StmFilter,
    pub objstm_filter: StmFilter,
    pub trailing_ws: bool,
    pub two_objstms: bool,
    pub move_root: bool,
    /// with move_root: the revision also frees the catalog it replaces (object numbers 1.. are then
    /// mentioned by an update, e.g. a classic subsection "1 1" whose entry is free)
    pub free_old_root: bool,
    /// the cross-reference stream of this revision takes the object number of the previous
    /// revision's cross-reference stream (an update may rewrite any object, also that one)
    pub reuse_xref_num: bool,
    /// object streams of this revision keep a superseded copy of their first member in front
    pub stale_member: bool,
    /// stream objects of this revision give their /Length as a reference to an integer object
    /// (a fresh number) that is stored directly (1) or in an object stream (2); 0 = direct integer
    pub length_ref: u8,
    /// the trailer of this revision has /Info (a fresh object whose /Title names the revision);
    /// without it the document has no /Info after this revision, whatever older trailers said
    pub info: bool,
    /// predictor of the cross-reference stream (with a Flate or LZW filter): 0, 2, 10..=15
    pub xref_predictor: u8,
    /// numbers freed by this revision get generation 65535 (never to be reused) instead of the
    /// previous generation + 1
    pub free_max_gen: bool,
}

#[derive(Clone, Debug, PartialEq)]
pub struct History {
    pub junk: Vec<u8>,
    pub nvals: u32,
    pub revs: Vec<RevPlan>,
    /// also allow a number that was freed (or carries a generation above 0) to come back as a
    /// compressed object, as writers that ignore generations do: the statement quantifies over all
    /// partial maps number -> {direct, compressed, free}, not only over generation-conforming ones
    pub relaxed_reuse: bool,
    /// the whole history is an encrypted document (standard security handler, RC4, empty user
    /// password): (revision, key bytes); the encryption dictionary is an object of the first section
    pub encrypt: Option<(u8, usize)>,
    /// the first revision also defines one object with a far higher number (sparse numbering:
    /// /Size exceeds the length of the file in bytes)
    pub sparse: bool,
}

fn filt_name(f: StmFilter) -> &'static str {
    match f {
        StmFilter::None => "none",
        StmFilter::FlateStored => "flate_stored",
        StmFilter::AsciiHex => "ascii_hex",
        StmFilter::Lzw => "lzw",
        StmFilter::HexFlate => "hex_flate",
        StmFilter::Ascii85 => "ascii85",
    }
}
fn filt_from(s: &str) -> StmFilter {
    match s {
        "flate_stored" => StmFilter::FlateStored,
        "ascii_hex" => StmFilter::AsciiHex,
        "lzw" => StmFilter::Lzw,
        "hex_flate" => StmFilter::HexFlate,
        "ascii85" => StmFilter::Ascii85,
        _ => StmFilter::None,
    }
}

impl History {
    pub fn to_json(&self) -> J {
        let revs: Vec<J> = self
            .revs
            .iter()
            .map(|r| {
                let m: Vec<J> = r
                    .mentions
                    .iter()
                    .map(|(n, a)| match a {
                        Action::Direct(Body::Plain(v)) => json!({"num": n, "direct": v.to_json()}),
                        Action::Direct(Body::Stream { dict, data, len_ref }) => json!({"num": n, "direct_stream": {"dict": dict_to_json(dict), "data": hex(data), "len_ref": len_ref}}),
                        Action::Compressed(v) => json!({"num": n, "compressed": v.to_json()}),
                        Action::Free => json!({"num": n, "free": true}),
                    })
                    .collect();
                json!({"mentions": m, "xref_stream": r.xref_stream, "w_extra": r.w_extra, "w0_zero": r.w0_zero, "cuts": r.cuts, "xref_filter": filt_name(r.xref_filter),
                    "objstm_filter": filt_name(r.objstm_filter), "trailing_ws": r.trailing_ws, "two_objstms": r.two_objstms, "move_root": r.move_root,
                    "free_old_root": r.free_old_root, "reuse_xref_num": r.reuse_xref_num, "stale_member": r.stale_member, "length_ref": r.length_ref, "info": r.info, "xref_predictor": r.xref_predictor, "free_max_gen": r.free_max_gen})
            })
            .collect();
        json!({"junk": hex(&self.junk), "nvals": self.nvals, "revs": revs, "relaxed_reuse": self.relaxed_reuse, "encrypt": self.encrypt.map(|(r, k)| json!([r, k])), "sparse": self.sparse})
    }
    pub fn from_json(j: &J) -> Option<History> {
        let mut revs = vec![];
        for r in j.get("revs")?.as_array()? {
            let mut mentions = vec![];
            for m in r.get("mentions")?.as_array()? {
                let n = m.get("num")?.as_u64()? as u32;
                let a = if let Some(v) = m.get("direct") {
                    Action::Direct(Body::Plain(Val::from_json(v)?))
                } else if let Some(s) = m.get("direct_stream") {
                    Action::Direct(Body::Stream { dict: dict_from_json(s.get("dict")?)?, data: unhex(s.get("data")?.as_str()?)?, len_ref: s.get("len_ref").and_then(|x| x.as_u64()).map(|x| x as u32) })
                } else if let Some(v) = m.get("compressed") {
                    Action::Compressed(Val::from_json(v)?)
                } else {
                    Action::Free
                };
                mentions.push((n, a));
            }
            let w = r.get("w_extra")?.as_array()?;
            revs.push(RevPlan {
                mentions,
                xref_stream: r.get("xref_stream")?.as_bool()?,
                w_extra: [w.get(0)?.as_u64()? as usize, w.get(1)?.as_u64()? as usize, w.get(2)?.as_u64()? as usize],
                w0_zero: r.get("w0_zero")?.as_bool()?,
                cuts: r.get("cuts")?.as_array()?.iter().filter_map(|x| x.as_u64()).map(|x| x as u32).collect(),
                xref_filter: filt_from(r.get("xref_filter")?.as_str()?),
                objstm_filter: filt_from(r.get("objstm_filter")?.as_str()?),
                trailing_ws: r.get("trailing_ws")?.as_bool()?,
                two_objstms: r.get("two_objstms")?.as_bool()?,
                move_root: r.get("move_root")?.as_bool()?,
                free_old_root: r.get("free_old_root").and_then(|x| x.as_bool()).unwrap_or(false),
                reuse_xref_num: r.get("reuse_xref_num").and_then(|x| x.as_bool()).unwrap_or(false),
                stale_member: r.get("stale_member").and_then(|x| x.as_bool()).unwrap_or(false),
                length_ref: r.get("length_ref").and_then(|x| x.as_u64()).unwrap_or(0) as u8,
                info: r.get("info").and_then(|x| x.as_bool()).unwrap_or(false),
                xref_predictor: r.get("xref_predictor").and_then(|x| x.as_u64()).unwrap_or(0) as u8,
                free_max_gen: r.get("free_max_gen").and_then(|x| x.as_bool()).unwrap_or(false),
            });
        }
        Some(History { junk: unhex(j.get("junk")?.as_str()?)?, nvals: j.get("nvals")?.as_u64()? as u32, revs, relaxed_reuse: j.get("relaxed_reuse").and_then(|x| x.as_bool()).unwrap_or(false),
            encrypt: j.get("encrypt").and_then(|e| Some((e.get(0)?.as_u64()? as u8, e.get(1)?.as_u64()? as usize))),
            sparse: j.get("sparse").and_then(|x| x.as_bool()).unwrap_or(false) })
    }
}

#[derive(Clone, Copy, PartialEq)]
enum St {
    Undefined,
    InUse,
    Free,
}

/// Compile a history into a well-formed document: generation numbers follow the specification
/// (a freed number's entry carries generation + 1, a reuse carries that generation, compressed
/// objects only for numbers that never left generation 0); actions that would break well-formedness
/// (freeing an undefined number, compressing a reused one) are adjusted, so that every sub-history
/// produced by shrinking still compiles.
const FILE_ID: &[u8] = b"0123456789abcdef";
const SPARSE_NUM: u32 = 6000;

pub fn compile(h: &History) -> DocSpec {
    let mut next: u32 = 3 + h.nvals;
    let mut status: BTreeMap<u32, St> = BTreeMap::new();
    let mut gen: BTreeMap<u32, u16> = BTreeMap::new();
    let mut root: u32 = 1;
    let mut last_xref_stream_num: Option<u32> = None;
    let mut revisions = vec![];
    let mut enc = h.encrypt.map(|(r, key_len)| crate::crypt_ref::EncSpec { r, key_len, user_pw: vec![], owner_pw: b"owner".to_vec(), p: -4, id0: FILE_ID.to_vec(), enc_obj: 0 });
    for (ri, r) in h.revs.iter().enumerate() {
        let mut slots: BTreeMap<u32, Slot> = BTreeMap::new();
        let mut mentions = r.mentions.clone();
        if ri == 0 {
            mentions.retain(|(n, _)| *n != 1 && *n != 2);
            if h.sparse {
                // one object far above the others: every auxiliary number follows it
                mentions.push((SPARSE_NUM, Action::Direct(Body::Plain(Val::dict(vec![("Sparse", Val::Int(4242))])))));
                next = SPARSE_NUM + 1;
            }
            mentions.push((1, Action::Direct(Body::Plain(catalog(2, 0)))));
            mentions.push((2, Action::Direct(Body::Plain(Val::dict(vec![("Type", Val::name("Pages")), ("Kids", Val::Arr(vec![])), ("Count", Val::Int(0))])))));
        } else {
            // the catalog and the page tree root are rewritten only through move_root
            mentions.retain(|(n, _)| *n != 1 && *n != 2);
        }
        if r.move_root && ri > 0 {
            let n = next;
            next += 1;
            let old_root = root;
            root = n;
            mentions.push((n, Action::Direct(Body::Plain(catalog(2, ri as i64)))));
            if r.free_old_root {
                mentions.push((old_root, Action::Free));
            }
        }
        let mut want_compressed: Vec<(u32, Val)> = vec![];
        for (n, a) in mentions {
            let st = status.get(&n).cloned().unwrap_or(St::Undefined);
            let g = gen.get(&n).cloned().unwrap_or(0);
            if st == St::Free && g == 65535 {
                continue; // generation 65535: the number stays free for good
            }
            match a {
                Action::Direct(mut body) => {
                    if let Body::Stream { data, len_ref, .. } = &mut body {
                        if r.length_ref > 0 {
                            let ln = next;
                            next += 1;
                            *len_ref = Some(ln);
                            let v = Val::Int(data.len() as i64);
                            if r.length_ref == 2 && r.xref_stream {
                                want_compressed.push((ln, v));
                            } else {
                                slots.insert(ln, Slot::Direct { gen: 0, body: Body::Plain(v) });
                            }
                        }
                    }
                    slots.insert(n, Slot::Direct { gen: g, body });
                    status.insert(n, St::InUse);
                }
                Action::Compressed(v) => {
                    if r.xref_stream && (g == 0 || h.relaxed_reuse) && n != root {
                        want_compressed.push((n, v));
                        status.insert(n, St::InUse);
                    } else {
                        slots.insert(n, Slot::Direct { gen: g, body: Body::Plain(v) });
                        status.insert(n, St::InUse);
                    }
                }
                Action::Free => {
                    if st == St::InUse && g < 60000 {
                        let ng = if r.free_max_gen { 65535 } else { g + 1 };
                        gen.insert(n, ng);
                        slots.insert(n, Slot::Free { gen: ng });
                        status.insert(n, St::Free);
                    }
                }
            }
        }
        let mut objstms = vec![];
        if !want_compressed.is_empty() {
            let k = if r.two_objstms && want_compressed.len() >= 2 { 2 } else { 1 };
            let nums: Vec<u32> = (0..k)
                .map(|_| {
                    let n = next;
                    next += 1;
                    n
                })
                .collect();
            for (i, (n, v)) in want_compressed.into_iter().enumerate() {
                slots.insert(n, Slot::Compressed { stm: nums[i % k], val: v });
            }
            for n in nums {
                objstms.push(ObjStmSpec { num: n, filter: r.objstm_filter, trailing_ws: r.trailing_ws, stale_first: r.stale_member });
            }
        }
        let style = if r.xref_stream {
            let num = match (r.reuse_xref_num, last_xref_stream_num) {
                (true, Some(n)) => n,
                _ => {
                    let n = next;
                    next += 1;
                    n
                }
            };
            last_xref_stream_num = Some(num);
            let all_inuse = ri > 0 && slots.values().all(|s| matches!(s, Slot::Direct { .. })) && objstms.is_empty();
            let w0 = if r.w0_zero && all_inuse { 0 } else { 1 + r.w_extra[0] };
            XrefStyle::Stream { num, w: [w0, 4 + r.w_extra[1], 2 + r.w_extra[2]], cuts: r.cuts.clone(), filter: r.xref_filter, predictor: r.xref_predictor }
        } else {
            XrefStyle::Classic { cuts: r.cuts.clone() }
        };
        let marker = format!("rev{}", ri).into_bytes();
        // the first /ID string stays the same in every revision of an encrypted document (the key depends on it)
        let id0 = if enc.is_some() { FILE_ID.to_vec() } else { marker.clone() };
        let mut trailer = vec![("ID".to_string(), Val::Arr(vec![Val::Str(id0), Val::Str(marker.clone())]))];
        if let Some(e) = &mut enc {
            if ri == 0 {
                e.enc_obj = next;
                slots.insert(next, Slot::Direct { gen: 0, body: Body::Plain(e.dict()) });
                next += 1;
            }
            trailer.push(("Encrypt".to_string(), Val::r(e.enc_obj)));
        }
        if r.info {
            slots.insert(next, Slot::Direct { gen: 0, body: Body::Plain(Val::dict(vec![("Title", Val::Str(marker.clone())), ("CreationDate", Val::Str(INFO_DATES[ri % INFO_DATES.len()].to_vec())), ("ModDate", Val::Str(INFO_DATES[(ri + 3) % INFO_DATES.len()].to_vec()))])) });
            trailer.push(("Info".to_string(), Val::r(next)));
            next += 1;
        }
        revisions.push(Revision {
            slots,
            objstms,
            style,
            size: next,
            root: Val::r(root),
            trailer,
            overrides: vec![],
        });
    }
    DocSpec { junk: h.junk.clone(), revisions, encrypt: enc }
}

fn catalog(pages: u32, marker: i64) -> Val {
    Val::dict(vec![("Type", Val::name("Catalog")), ("Pages", Val::r(pages)), ("Marker", Val::Int(marker))])
}

// ---------------------------------------------------------------------------------------------

fn gen_member_val(rng: &mut Rng, depth: usize) -> Val {
    match rng.below(if depth == 0 { 8 } else { 11 }) {
        0 => Val::Int(rng.range(-500, 500)),
        1 => Val::Int(*rng.pick(&[0, 7, 2147483647, -2147483647])),
        2 => Val::Real(*rng.pick(&[0.5, -12.25, 1000.125])),
        3 => Val::Bool(rng.coin()),
        4 => Val::Name(rng.pick(&["Alpha", "B2", "x-y"]).to_string()),
        5 => Val::Str(rng.pick(&[&b"text"[..], b"(p)", b"", b"\x00\xff"]).to_vec()),
        6 => Val::Null,
        7 => Val::Ref(3 + rng.below(4) as u32, 0),
        8 => Val::Arr((0..rng.usize(4)).map(|_| gen_member_val(rng, depth - 1)).collect()),
        _ => Val::Dict((0..rng.usize(4)).map(|i| (format!("K{}", i), gen_member_val(rng, depth - 1))).filter(|(_, v)| *v != Val::Null).collect()),
    }
}

/// dates of the /Info dictionaries (revision k takes the k-th and the k+3rd): every form of the
/// time zone the specification allows
const INFO_DATES: [&[u8]; 7] = [b"D:20200102030405+00'00'", b"D:20210304050607-00'00'", b"D:20220506070809Z", b"D:20230708091011+01'30'", b"D:20240910111213-08'00'", b"D:2019", b"D:20180203040506Z00'00'"];

pub fn gen_history(rng: &mut Rng, tier: Tier) -> History {
    // now and then a small document with a long life: more sections than object numbers (every
    // update rewrites an existing object, cross-reference streams keep their number, no /Info)
    let long_small = rng.chance(1, 25);
    let nvals = if long_small { 3 } else { 3 + rng.below(10) as u32 };
    let max_revs = if tier == Tier::Quick { 4 } else { 8 };
    let n_revs = if long_small { 10 + rng.usize(14) } else { 1 + rng.usize(max_revs) };
    let filters = [StmFilter::None, StmFilter::FlateStored, StmFilter::AsciiHex, StmFilter::Lzw, StmFilter::Ascii85, StmFilter::HexFlate];
    // swarm: which writer styles are enabled in this run
    let allow_stream = rng.chance(3, 4);
    let allow_classic = !allow_stream || rng.chance(3, 4);
    let allow_free = rng.chance(2, 3);
    let allow_compressed = allow_stream && rng.chance(3, 4) && !long_small;
    let mut revs = vec![];
    let mut serial = 0i64;
    for ri in 0..n_revs {
        let xref_stream = if allow_stream && allow_classic { rng.coin() } else { allow_stream };
        let mut mentions = vec![];
        let dens = if ri == 0 { 3 } else { 1 + rng.below(3) }; // of 4
        for n in 3..3 + nvals {
            if !rng.chance(dens, 4) {
                continue;
            }
            serial += 1;
            let action = match rng.below(10) {
                0 | 1 if allow_free && ri > 0 => Action::Free,
                2..=5 if allow_compressed && xref_stream => {
                    let depth = rng.usize(3);
                    let mut v = gen_member_val(rng, depth);
                    tag(&mut v, serial);
                    Action::Compressed(v)
                }
                6 => {
                    let data: Vec<u8> = (0..rng.usize(24)).map(|_| rng.below(256) as u8).collect();
                    Action::Direct(Body::Stream { dict: vec![("Serial".into(), Val::Int(serial))], data, len_ref: None })
                }
                _ => {
                    let depth = rng.usize(3);
                    let mut v = gen_member_val(rng, depth);
                    tag(&mut v, serial);
                    Action::Direct(Body::Plain(v))
                }
            };
            mentions.push((n, action));
        }
        let cuts = (0..rng.usize(3)).map(|_| 3 + rng.below(nvals as u64 + 2) as u32).collect();
        revs.push(RevPlan {
            mentions,
            xref_stream,
            w_extra: [rng.usize(2), rng.usize(3), rng.usize(3)],
            w0_zero: rng.chance(1, 3),
            cuts,
            xref_filter: *rng.pick(&filters),
            objstm_filter: *rng.pick(&filters),
            trailing_ws: rng.coin(),
            two_objstms: !long_small && rng.chance(1, 3),
            move_root: !long_small && ri > 0 && rng.chance(1, 6),
            free_old_root: rng.chance(1, 2),
            reuse_xref_num: long_small || rng.chance(1, 4),
            stale_member: rng.chance(1, 5),
            length_ref: if !long_small && rng.chance(1, 3) { 1 + rng.below(2) as u8 } else { 0 },
            info: !long_small && rng.chance(1, 3),
            xref_predictor: if rng.coin() { *rng.pick(&[12u8, 12, 10, 11, 13, 14, 15, 2]) } else { 0 },
            free_max_gen: rng.chance(1, 4),
        });
    }
    let junk = if rng.chance(1, 5) { (0..rng.usize(64)).map(|_| *rng.pick(b"xyz \n012")).collect() } else { vec![] };
    let relaxed_reuse = rng.chance(1, 4);
    let encrypt = if rng.chance(1, 5) { Some(*rng.pick(&[(2u8, 5usize), (3, 5), (3, 16), (4, 16)])) } else { None };
    let sparse = !long_small && rng.chance(1, 12);
    History { junk, nvals, revs, relaxed_reuse, encrypt, sparse }
}

/// make every written value unique where its kind allows, so that a stale answer is attributable
fn tag(v: &mut Val, serial: i64) {
    match v {
        Val::Dict(d) => d.push(("Serial".into(), Val::Int(serial))),
        Val::Arr(a) => a.push(Val::Int(serial)),
        Val::Int(i) if i.abs() < 1000 => *i = serial * 1000 + (*i % 1000),
        _ => {}
    }
}

fn kind_of(v: &Val) -> &'static str {
    match v {
        Val::Null => "null",
        Val::Bool(_) => "boolean",
        Val::Int(_) => "integer",
        Val::Real(_) => "real",
        Val::Name(_) => "name",
        Val::Str(_) => "string",
        Val::Arr(_) => "array",
        Val::Dict(_) => "dictionary",
        Val::Ref(..) => "reference",
        Val::Raw(_) => "raw",
    }
}

pub struct Outcome {
    pub violation: Option<(String, String)>,
    pub checked: u64,
    pub overrides: u64,
    pub moved_storage: u64,
    pub frees: u64,
    pub opens: u64,
}

fn missing_kind(e: &PdfError) -> bool {
    matches!(root_cause(e), PdfError::FreeObject { .. } | PdfError::NullRef { .. } | PdfError::UnspecifiedXRefEntry { .. })
}

pub fn run_history(h: &History) -> Outcome {
    let mut out = Outcome { violation: None, checked: 0, overrides: 0, moved_storage: 0, frees: 0, opens: 0 };
    let spec = compile(h);
    let w = write_doc(&spec);
    if let Err(e) = self_check(&spec, &w) {
        eprintln!("HARNESS-ERROR: writer self-check failed (C02): {}\n{}", e, h.to_json());
        std::process::exit(2);
    }
    clear_last_panic();
    for k in 1..=spec.revisions.len() {
        let bytes = &w.bytes[..w.rev_end[k - 1]];
        let model = model_after(&spec, k);
        let prev_model = if k > 1 { model_after(&spec, k - 1) } else { BTreeMap::new() };
        // reach statistics
        for (n, l) in &model {
            if let Some(p) = prev_model.get(n) {
                if spec.revisions[k - 1].slots.contains_key(n) {
                    out.overrides += 1;
                    if std::mem::discriminant(p) != std::mem::discriminant(l) {
                        out.moved_storage += 1;
                    }
                    if *l == Latest::Free {
                        out.frees += 1;
                    }
                }
            }
        }
        let rev = &spec.revisions[k - 1];
        for (tolerant, cached) in [(false, false), (true, true)] {
            out.opens += 1;
            let ctl = SimCtl::new(cached, cached);
            let r = std::panic::catch_unwind(std::panic::AssertUnwindSafe(|| -> Option<(String, String)> {
                let cfg = if tolerant { "tolerant, cached" } else { "strict, uncached" };
                let file = match ops::open(bytes, &ctl, tolerant, b"") {
                    Ok(f) => f,
                    Err(e) => return Some((format!("a well-formed update history does not open: {}", error_kind(&e)), format!("after revision {} ({}): {}", k, cfg, e).chars().take(400).collect())),
                };
                // the trailer is that of the newest section
                let root_ok = Val::Ref(file.trailer.root.get_ref().get_inner().id as u32, 0) == rev.root;
                let id_ok = file.trailer.id.last().map(|s| s.as_bytes() == format!("rev{}", k - 1).as_bytes()).unwrap_or(false);
                if !root_ok || !id_ok || file.trailer.size as u32 != rev.size {
                    return Some(("the document trailer is not that of the newest section".into(), format!("after revision {} ({}): root {:?} id {:?} size {}", k, cfg, file.trailer.root.get_ref(), file.trailer.id, file.trailer.size)));
                }
                let want_info = h.revs[k - 1].info;
                let got_info = file.trailer.info_dict.as_ref().map(|i| i.title.as_ref().map(|t| t.as_bytes().to_vec()));
                if got_info != if want_info { Some(Some(format!("rev{}", k - 1).into_bytes())) } else { None } || file.trailer.prev_trailer_pos.is_some() != (k > 1) {
                    return Some(("the document trailer is not that of the newest section".into(), format!("after revision {} ({}): /Info title {:?} (newest trailer has /Info: {}), /Prev {:?}", k, cfg, got_info, want_info, file.trailer.prev_trailer_pos)));
                }
                let res = file.resolver();
                for n in 1..rev.size {
                    let expected = model.get(&n);
                    let is_aux = spec.revisions[..k].iter().any(|r| r.objstms.iter().any(|o| o.num == n) || matches!(r.style, XrefStyle::Stream { num, .. } if num == n));
                    if is_aux {
                        continue;
                    }
                    let g = match expected {
                        Some(Latest::Direct { gen, .. }) => *gen as u64,
                        _ => 0,
                    };
                    let got = res.resolve(PlainRef { id: n as u64, gen: g });
                    let newest_style = |n: u32| -> &'static str {
                        for r in spec.revisions[..k].iter().rev() {
                            if r.slots.contains_key(&n) {
                                return match r.style {
                                    XrefStyle::Classic { .. } => "classic table",
                                    XrefStyle::Stream { .. } => "xref stream",
                                };
                            }
                        }
                        "no section"
                    };
                    let history_of = |n: u32| -> String {
                        spec.revisions[..k]
                            .iter()
                            .enumerate()
                            .filter_map(|(i, r)| {
                                r.slots.get(&n).map(|s| {
                                    format!(
                                        "rev{}:{}",
                                        i,
                                        match s {
                                            Slot::Direct { gen, .. } => format!("direct(gen {})", gen),
                                            Slot::Compressed { .. } | Slot::RawCompressed { .. } => "compressed".to_string(),
                                            Slot::Free { gen } => format!("free(gen {})", gen),
                                        }
                                    )
                                })
                            })
                            .collect::<Vec<_>>()
                            .join(" ")
                    };
                    let describe_got = |g: &Result<Primitive, PdfError>| match g {
                        Ok(p) => format!("{}", p).chars().take(100).collect::<String>(),
                        Err(e) => format!("Err({})", error_kind(e)),
                    };
                    let fail = |what: String, got: &Result<Primitive, PdfError>| Some((what, format!("object {} after revision {} ({}), mentions [{}], newest in a {}: got {}", n, k, cfg, history_of(n), newest_style(n), describe_got(got))));
                    match expected {
                        None => {
                            if !matches!(&got, Err(e) if missing_kind(e)) {
                                return fail("a number that no section defines is not reported as missing".into(), &got);
                            }
                        }
                        Some(Latest::Free) => {
                            if !matches!(&got, Err(e) if missing_kind(e)) {
                                let stale = got.is_ok();
                                return fail(if stale { "a freed number resolves to an older value".into() } else { format!("a freed number is reported with {}", describe_got(&got)) }, &got);
                            }
                        }
                        Some(Latest::Compressed(v)) => match &got {
                            Ok(p) if prim_eq(p, &val_to_prim(v)) => {}
                            Ok(_) => return fail("a compressed object resolves to a value other than the newest".to_string(), &got),
                            Err(e) => return fail(format!("a compressed {} fails to resolve: {}", kind_of(v), error_kind(e)), &got),
                        },
                        Some(Latest::Direct { body: Body::Plain(v), .. }) => match &got {
                            Ok(p) if prim_eq(p, &val_to_prim(v)) => {}
                            Ok(_) => return fail("a directly stored object resolves to a value other than the newest".to_string(), &got),
                            Err(e) => return fail(format!("a directly stored {} fails to resolve: {}", kind_of(v), error_kind(e)), &got),
                        },
                        Some(Latest::Direct { body: Body::Stream { dict, data, .. }, .. }) => match &got {
                            Ok(Primitive::Stream(s)) => {
                                let mut info = s.info.clone();
                                info.remove("Length");
                                let same_dict = prim_eq(&Primitive::Dictionary(info), &Primitive::Dictionary(dict_to_prim(dict)));
                                let same_data = s.raw_data(&res).map(|d| &d[..] == &data[..]).unwrap_or(false);
                                if !same_dict || !same_data {
                                    return fail("a stream object resolves to a stream other than the newest".into(), &got);
                                }
                            }
                            Ok(_) => return fail("a stream object resolves to a value other than the newest (stream)".into(), &got),
                            Err(e) => return fail(format!("a stream object fails to resolve: {}", error_kind(e)), &got),
                        },
                    }
                }
                None
            }));
            out.checked += rev.size as u64;
            match r {
                Ok(None) => {}
                Ok(Some(v)) => {
                    out.violation = Some(v);
                    return out;
                }
                Err(_) => {
                    let p = take_last_panic().unwrap_or_else(|| "panic".into());
                    out.violation = Some((format!("panic: {}", panic_signature(&p)), p));
                    return out;
                }
            }
        }
    }
    out
}

pub struct C02;

impl C02 {
    pub fn new() -> C02 {
        // this check's own histories carry /Index pairs with count 0 (the history documents that C09 and
        // C12 borrow from `gen_history` keep their bytes)
        crate::docgen::EMPTY_INDEX_PAIRS.store(true, std::sync::atomic::Ordering::Relaxed);
        C02
    }
    fn shrink(&self, h: &History, sig: &str) -> (History, String) {
        let mut best = h.clone();
        let mut detail = String::new();
        let mut budget = 200;
        let mut try_c = |c: History, best: &mut History, detail: &mut String, budget: &mut i32| -> bool {
            if *budget <= 0 {
                return false;
            }
            *budget -= 1;
            if let Some((s, d)) = run_history(&c).violation {
                if s == sig {
                    *best = c;
                    *detail = d;
                    return true;
                }
            }
            false
        };
        let mut progress = true;
        while progress && budget > 0 {
            progress = false;
            // drop a revision (never the first)
            for i in (1..best.revs.len()).rev() {
                let mut c = best.clone();
                c.revs.remove(i);
                if try_c(c, &mut best, &mut detail, &mut budget) {
                    progress = true;
                    break;
                }
            }
            if progress {
                continue;
            }
            if best.sparse {
                let mut c = best.clone();
                c.sparse = false;
                if try_c(c, &mut best, &mut detail, &mut budget) {
                    progress = true;
                    continue;
                }
            }
            if best.encrypt.is_some() {
                let mut c = best.clone();
                c.encrypt = None;
                if try_c(c, &mut best, &mut detail, &mut budget) {
                    progress = true;
                    continue;
                }
            }
            if best.relaxed_reuse {
                let mut c = best.clone();
                c.relaxed_reuse = false;
                if try_c(c, &mut best, &mut detail, &mut budget) {
                    progress = true;
                    continue;
                }
            }
            if !best.junk.is_empty() {
                let mut c = best.clone();
                c.junk.clear();
                if try_c(c, &mut best, &mut detail, &mut budget) {
                    progress = true;
                    continue;
                }
            }
            // drop a mention
            'm: for i in 0..best.revs.len() {
                for k in 0..best.revs[i].mentions.len() {
                    let mut c = best.clone();
                    c.revs[i].mentions.remove(k);
                    if try_c(c, &mut best, &mut detail, &mut budget) {
                        progress = true;
                        break 'm;
                    }
                }
            }
            if progress {
                continue;
            }
            // without predictor
            for i in 0..best.revs.len() {
                if best.revs[i].xref_predictor != 0 {
                    let mut c = best.clone();
                    c.revs[i].xref_predictor = 0;
                    if try_c(c, &mut best, &mut detail, &mut budget) {
                        progress = true;
                        break;
                    }
                }
            }
            if progress {
                continue;
            }
            // simpler styles
            for i in 0..best.revs.len() {
                let r = &best.revs[i];
                if !r.cuts.is_empty() || r.w_extra != [0, 0, 0] || r.xref_filter != StmFilter::None || r.objstm_filter != StmFilter::None || r.two_objstms || r.move_root || r.w0_zero || r.reuse_xref_num || r.stale_member {
                    let mut c = best.clone();
                    let rr = &mut c.revs[i];
                    rr.cuts.clear();
                    rr.w_extra = [0, 0, 0];
                    rr.xref_filter = StmFilter::None;
                    rr.objstm_filter = StmFilter::None;
                    rr.two_objstms = false;
                    rr.move_root = false;
                    rr.w0_zero = false;
                    rr.reuse_xref_num = false;
                    rr.stale_member = false;
                    if try_c(c, &mut best, &mut detail, &mut budget) {
                        progress = true;
                        break;
                    }
                }
            }
        }
        (best, detail)
    }
}

impl Check for C02 {
    fn info(&self) -> CheckInfo {
        CheckInfo {
            id: "C02",
            level: "exploration",
            rule: "one run = one update history of 1-4 (quick) / 1-8 (thorough) revisions over 3-12 value object numbers written by the harness's independent writer (classic tables with arbitrary subsection splits; xref streams with arbitrary /Index splits incl. pairs with count 0, /W widths incl. width-0 type field, optional filter (stored-block Flate, ASCIIHex, LZW, ASCII85 with z groups and a short final group, ASCIIHex over Flate with /DecodeParms [null <<..>>]) and predictor (TIFF 2, PNG 10-15; the rows declared as one colour of 8 bits, two colours of 8 bits, 16-bit or 4-bit samples); objects direct, in one or two object streams with or without filter and trailing white space, freed with generation+1, reused; /Size growth; moving /Root; trailers with and without /Info; sparse numbering (an object 6000 in a file of a few kB); frees with generation 65535; one history in five written RC4-encrypted (revision 2, 3 or 4 of the standard security handler, empty user password) by the harness's own MD5/RC4 implementation, which the self-test checks against the /O and /U entries of the two RC4 corpus files), opened after every append (every crash point that keeps whole revisions) strict+uncached and tolerant+cached; every number below /Size is resolved and compared with the model 'newest mention wins'; the trailer (/Root, /ID, /Size, /Info, presence of /Prev) must be that of the newest section. Non-trivial = some revision overrides an earlier mention; distinct = hash of the history",
            assumptions: vec![
                "trusted base: the harness's writer; every written file is cross-checked by the harness's strict reader (offsets, section chain, newest-first merge) before it is used, disagreement is a harness error".into(),
                "crash points are revision boundaries; a torn final append, hybrid-reference files and sections violating the generation rules are outside the statement".into(),
                "object-stream and xref-stream container objects themselves are not compared".into(),
            ],
            components_real: vec!["pdf crate: backend (startxref, /Prev chain), xref table merge, classic and stream section parsers, object streams, resolve"],
            components_stub: vec![],
            per_run_timeout_s: 60,
            required_probes: vec!["overrides", "moved_between_direct_compressed_free", "frees", "opens", "encrypted_histories"],
            exhaustive: false,
        }
    }
    fn total_runs(&self, tier: Tier) -> u64 {
        match tier {
            Tier::Quick => 100_000,
            Tier::Thorough => 1_000_000,
        }
    }
    fn run(&mut self, ctx: &WorkerCtx, i: u64) -> RunReport {
        let mut rng = Rng::new(run_seed(ctx.verif_seed, "C02", i));
        let h = gen_history(&mut rng, ctx.tier);
        let out = run_history(&h);
        let mut rep = RunReport::default();
        let mut hh = Hasher64::new();
        hh.str(&h.to_json().to_string());
        hh.u64(out.checked);
        hh.str(out.violation.as_ref().map(|v| v.0.as_str()).unwrap_or("held"));
        rep.trace_hash = hh.finish();
        rep.nontrivial = out.overrides > 0;
        rep.count("objects_compared", out.checked);
        rep.count("overrides", out.overrides);
        rep.count("moved_between_direct_compressed_free", out.moved_storage);
        rep.count("frees", out.frees);
        rep.count("opens", out.opens);
        rep.count("revisions", h.revs.len() as u64);
        if h.encrypt.is_some() {
            rep.count("encrypted_histories", 1);
        }
        if let Some((sig, detail)) = out.violation {
            let (m, d) = self.shrink(&h, &sig);
            rep.violations.push(Violation { signature: sig, detail: if d.is_empty() { detail } else { d }, case: json!({"property": "C02", "history": m.to_json()}) });
        }
        if i < 3 {
            rep.sample = Some(json!({"run": i, "history": h.to_json()}));
        }
        rep
    }
    fn replay(&mut self, _ctx: &WorkerCtx, case: &J) -> Vec<Violation> {
        let h = match case.get("history").and_then(History::from_json) {
            Some(h) => h,
            None => return vec![],
        };
        run_history(&h).violation.into_iter().map(|(s, d)| Violation { signature: s, detail: d, case: case.clone() }).collect()
    }
}
