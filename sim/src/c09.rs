//! C09 — a reload sees exactly the saved modifications (DESIGN §4.3). The open document is a small
//! store: put = create/update/promise+fulfil, read = resolve/get, sync = save_to, durable state =
//! the bytes a successful save produced, dirty restart = drop the document and reload them.

use crate::conv::*;
use crate::digest::{error_kind, Answer};
use crate::docgen::{self, Dict, Layout, Val};
use crate::docs::{Doc, Pool};
use crate::families::{self, Family};
use crate::framework::*;
use crate::ops::{self, ObjKind, Op, SimFile};
use crate::rng::{run_seed, Hasher64, Rng};
use crate::seams::{SimCtl, SimLog, SimObjCache, SimStmCache};
use pdf::object::*;
use pdf::primitive::Primitive;
use serde_json::{json, Value as J};
use std::collections::BTreeMap;
use std::sync::Arc;

#[derive(Clone, Debug, PartialEq)]
pub enum WV {
    Val(Val),
    Stream { dict: Dict, data: Vec<u8> },
    /// a stream object of the base file, handed back unchanged: its data is still in the source
    /// file, which makes the next save fail ("failing save")
    InFile(u64),
    /// a typed page (PagesNode::Leaf) with a one-part content stream and a direct resources
    /// dictionary: writing it makes the library create further objects from inside to_primitive
    Page { content: Vec<u8> },
    /// a stream of the base file copied the typed way: its stored bytes and its filter list go into
    /// `Stream::from_compressed`, which is written; it must decode to what the source decodes to
    CopyStream(u64),
    /// (expectation only) a stream that decodes to these bytes
    Decoded(Vec<u8>),
    /// a typed value whose serialisation fails (a stream whose typed dictionary part is an integer):
    /// the write call must return an error and leave nothing behind that makes a later save fail
    Unwritable,
}
#[derive(Clone, Debug, PartialEq)]
pub enum Target {
    /// k-th reference the caller was handed so far (modulo the number of handles)
    Handle(usize),
    Base(u64),
    /// a number below /Size that the base file does not define (free or never mentioned): the
    /// library may refuse the update with an error or accept it, then it is a write like any other
    Missing(u64),
}
#[derive(Clone, Debug, PartialEq)]
pub enum Op9 {
    Create(WV),
    Update(Target, WV),
    Promise,
    Fulfil(usize, WV),
    Read(Target),
    Save,
    /// save into a sink that refuses: 0 = /dev/full (ENOSPC), 1 = missing directory (ENOENT)
    SaveEnvFail(u8),
    Reload,
}

fn wv_json(w: &WV) -> J {
    match w {
        WV::Val(v) => json!({"val": v.to_json()}),
        WV::Stream { dict, data } => json!({"stream": {"dict": docgen::dict_to_json(dict), "data": docgen::hex(data)}}),
        WV::InFile(id) => json!({"infile": id}),
        WV::Page { content } => json!({"page": docgen::hex(content)}),
        WV::CopyStream(id) => json!({"copy_stream": id}),
        WV::Decoded(d) => json!({"decoded": docgen::hex(d)}),
        WV::Unwritable => json!({"unwritable": true}),
    }
}
fn wv_from(j: &J) -> Option<WV> {
    if let Some(v) = j.get("val") {
        return Some(WV::Val(Val::from_json(v)?));
    }
    if let Some(s) = j.get("stream") {
        return Some(WV::Stream { dict: docgen::dict_from_json(s.get("dict")?)?, data: docgen::unhex(s.get("data")?.as_str()?)? });
    }
    if let Some(p) = j.get("page") {
        return Some(WV::Page { content: docgen::unhex(p.as_str()?)? });
    }
    if let Some(c) = j.get("copy_stream") {
        return Some(WV::CopyStream(c.as_u64()?));
    }
    if j.get("unwritable").is_some() {
        return Some(WV::Unwritable);
    }
    if let Some(d) = j.get("decoded") {
        return Some(WV::Decoded(docgen::unhex(d.as_str()?)?));
    }
    Some(WV::InFile(j.get("infile")?.as_u64()?))
}
fn target_json(t: &Target) -> J {
    match t {
        Target::Handle(k) => json!({"handle": k}),
        Target::Base(id) => json!({"base": id}),
        Target::Missing(id) => json!({"missing": id}),
    }
}
fn target_from(j: &J) -> Option<Target> {
    if let Some(k) = j.get("handle") {
        return Some(Target::Handle(k.as_u64()? as usize));
    }
    if let Some(k) = j.get("missing") {
        return Some(Target::Missing(k.as_u64()?));
    }
    Some(Target::Base(j.get("base")?.as_u64()?))
}
impl Op9 {
    pub fn kind(&self) -> &'static str {
        match self {
            Op9::Create(_) => "create",
            Op9::Update(Target::Base(_), _) => "update(base)",
            Op9::Update(Target::Missing(_), _) => "update(missing)",
            Op9::Update(Target::Handle(_), _) => "update(handle)",
            Op9::Promise => "promise",
            Op9::Fulfil(..) => "fulfil",
            Op9::Read(_) => "read",
            Op9::Save => "save",
            Op9::SaveEnvFail(_) => "failing save (sink)",
            Op9::Reload => "reload",
        }
    }
    pub fn to_json(&self) -> J {
        match self {
            Op9::Create(w) => json!({"op": "create", "v": wv_json(w)}),
            Op9::Update(t, w) => json!({"op": "update", "target": target_json(t), "v": wv_json(w)}),
            Op9::Promise => json!({"op": "promise"}),
            Op9::Fulfil(k, w) => json!({"op": "fulfil", "promise": k, "v": wv_json(w)}),
            Op9::Read(t) => json!({"op": "read", "target": target_json(t)}),
            Op9::Save => json!({"op": "save"}),
            Op9::SaveEnvFail(k) => json!({"op": "save_env_fail", "kind": k}),
            Op9::Reload => json!({"op": "reload"}),
        }
    }
    pub fn from_json(j: &J) -> Option<Op9> {
        Some(match j.get("op")?.as_str()? {
            "create" => Op9::Create(wv_from(j.get("v")?)?),
            "update" => Op9::Update(target_from(j.get("target")?)?, wv_from(j.get("v")?)?),
            "promise" => Op9::Promise,
            "fulfil" => Op9::Fulfil(j.get("promise")?.as_u64()? as usize, wv_from(j.get("v")?)?),
            "read" => Op9::Read(target_from(j.get("target")?)?),
            "save" => Op9::Save,
            "save_env_fail" => Op9::SaveEnvFail(j.get("kind")?.as_u64()? as u8),
            "reload" => Op9::Reload,
            _ => return None,
        })
    }
}

#[derive(Clone)]
pub struct Case {
    pub base: Arc<Doc>,
    pub cached: bool,
    pub ops: Vec<Op9>,
}
impl Case {
    pub fn to_json(&self) -> J {
        json!({"property": "C09", "base": self.base.to_json(), "cached": self.cached, "ops": self.ops.iter().map(|o| o.to_json()).collect::<Vec<_>>()})
    }
    pub fn from_json(j: &J, repo: &str) -> Option<Case> {
        Some(Case {
            base: Arc::new(Doc::from_json(j.get("base")?, repo)?),
            cached: j.get("cached")?.as_bool()?,
            ops: j.get("ops")?.as_array()?.iter().filter_map(Op9::from_json).collect(),
        })
    }
}

// ---------------------------------------------------------------------------------------------
// executor + model

#[derive(Clone)]
struct Expect {
    r: PlainRef,
    v: WV,
}

pub struct Outcome {
    pub violation: Option<(String, String)>,
    pub trace: u64,
    pub saves_ok: u64,
    pub saves_failed_expected: u64,
    pub env_faults: u64,
    pub reloads: u64,
    pub reads: u64,
    pub writes: u64,
    pub second_saves: u64,
    pub refused_updates: u64,
    pub typed_copies: u64,
}

fn to_primitive(file: &SimFile, w: &WV) -> Result<Primitive, String> {
    match w {
        WV::Page { .. } | WV::CopyStream(_) | WV::Decoded(_) | WV::Unwritable => Err("typed value".into()),
        WV::Val(v) => Ok(val_to_prim(v)),
        WV::Stream { dict, data } => Stream::new(dict_to_prim(dict), data.clone()).to_primitive(&mut NoUpdate).map_err(|e| error_kind(&e)),
        WV::InFile(id) => match file.resolver().resolve(PlainRef { id: *id, gen: 0 }) {
            // only a stream whose data is still in the source file makes a save fail
            Ok(Primitive::Stream(s)) if format!("{:?}", s).contains("inner: InFile") => Ok(Primitive::Stream(s)),
            Ok(_) => Err("not a stream in the source file (any more)".into()),
            Err(e) => Err(error_kind(&e)),
        },
    }
}

/// Does `got` (as resolved) match what was written?
fn matches(res: &impl Resolve, at: PlainRef, got: &Primitive, w: &WV) -> Result<(), String> {
    match w {
        WV::Page { content } => match got {
            Primitive::Dictionary(d) => {
                if d.get("Type").and_then(|t| t.as_name().ok()) != Some("Page") {
                    return Err(format!("wrote a page, read {}", short(got)));
                }
                // one reference, or an array of references (a content stream is always an indirect object)
                let parts: Vec<PlainRef> = match d.get("Contents") {
                    Some(Primitive::Reference(c)) => vec![*c],
                    Some(Primitive::Array(a)) => {
                        let mut v = vec![];
                        for x in a {
                            match x {
                                Primitive::Reference(c) => v.push(*c),
                                other => return Err(format!("page /Contents holds {} instead of a reference to a stream", short(other).chars().take(30).collect::<String>())),
                            }
                        }
                        v
                    }
                    other => return Err(format!("page /Contents is {:?}", other.map(short))),
                };
                let c = match parts.first() {
                    Some(c) => *c,
                    None => return Err("page /Contents is empty".into()),
                };
                let mut all = vec![];
                for c in &parts {
                    if c.id == at.id {
                        return Err("page /Contents refers to the page object itself".into());
                    }
                    match res.resolve(*c) {
                        Ok(Primitive::Stream(s)) => match s.raw_data(res) {
                            Ok(data) => all.extend_from_slice(&data),
                            Err(e) => return Err(format!("page content: {}", error_kind(&e))),
                        },
                        Ok(p) => return Err(format!("page /Contents resolves to {}", short(&p))),
                        Err(e) => return Err(format!("page /Contents fails to resolve: {}", error_kind(&e))),
                    }
                }
                if &all[..] != &content[..] {
                    return Err(format!("page content: wrote {} bytes, read {} bytes in {} part(s)", content.len(), all.len(), parts.len()));
                }
                let want_box = Primitive::Array(page_box(content).iter().map(|&x| Primitive::Number(x)).collect());
                match d.get("MediaBox") {
                    Some(b) if prim_eq(b, &want_box) => {}
                    other => return Err(format!("page /MediaBox: wrote {} read {:?}", short(&want_box), other.map(short))),
                }
                match d.get("Resources") {
                    Some(Primitive::Reference(x)) if x.id != at.id && x.id != c.id => match res.resolve(*x) {
                        Ok(Primitive::Dictionary(_)) => {}
                        Ok(p) => return Err(format!("page /Resources resolves to {}", short(&p))),
                        Err(e) => return Err(format!("page /Resources fails to resolve: {}", error_kind(&e))),
                    },
                    other => return Err(format!("page /Resources is {:?}", other.map(short))),
                }
                Ok(())
            }
            p => Err(format!("wrote a page, read {}", short(p))),
        },
        WV::Val(v) => {
            let p = val_to_prim(v);
            if prim_eq(&p, got) {
                Ok(())
            } else {
                Err(format!("wrote {} read {}", short(&p), short(got)))
            }
        }
        WV::Stream { dict, data } => match got {
            Primitive::Stream(s) => {
                let mut info = s.info.clone();
                info.remove("Length");
                if !prim_eq(&Primitive::Dictionary(info.clone()), &Primitive::Dictionary(dict_to_prim(dict))) {
                    return Err(format!("stream dictionary: wrote {:?} read {:?}", dict, info));
                }
                match s.raw_data(res) {
                    Ok(d) if &d[..] == &data[..] => Ok(()),
                    Ok(d) => Err(format!("stream data: wrote {} bytes read {} bytes", data.len(), d.len())),
                    Err(e) => Err(format!("stream data: {}", error_kind(&e))),
                }
            }
            p => Err(format!("wrote a stream, read {}", short(p))),
        },
        WV::Unwritable => Err("an unwritable value was written".into()),
        WV::InFile(_) | WV::CopyStream(_) => match got {
            Primitive::Stream(_) => Ok(()),
            p => Err(format!("wrote a stream, read {}", short(p))),
        },
        WV::Decoded(want) => match got {
            Primitive::Stream(s) => match Stream::<()>::from_stream(s.clone(), res).and_then(|t| t.data(res)) {
                Ok(d) if &d[..] == &want[..] => Ok(()),
                Ok(d) => Err(format!("copied stream: the source decodes to {} bytes, the copy (filters {:?}, parameters {:?}) to {} bytes", want.len(), s.info.get("Filter").map(short), s.info.get("DecodeParms").map(short), d.len())),
                Err(e) => Err(format!("copied stream: the copy (filters {:?}, parameters {:?}) does not decode: {}", s.info.get("Filter").map(short), s.info.get("DecodeParms").map(short), error_kind(&e))),
            },
            p => Err(format!("wrote a stream, read {}", short(p))),
        },
    }
}
/// The media box a typed page is written with: half of the pages get a rectangle whose corners are
/// not in ascending order (as `PageBuilder::size` makes them: top 0, bottom h); what is written is
/// what must be read
fn page_box(content: &[u8]) -> [f32; 4] {
    if content.len() % 2 == 0 {
        [0.0, 0.0, 100.0, 100.0]
    } else {
        [100.0, 80.0, 0.0, 0.0]
    }
}
fn short(p: &Primitive) -> String {
    format!("{}", p).chars().take(80).collect()
}

struct Exec<'a> {
    case: &'a Case,
    scratch: String,
    file: SimFile,
    handles: Vec<PlainRef>,
    promises: Vec<PromisedRef<Primitive>>,
    expect: BTreeMap<u64, Expect>,
    /// every object number ever written in this run (never compared as "untouched")
    ever_written: std::collections::BTreeSet<u64>,
    durable: Vec<u8>,
    durable_expect: BTreeMap<u64, Expect>,
    durable_handles: Vec<PlainRef>,
    base_answers: BTreeMap<u64, Answer>,
    base_stream_answers: BTreeMap<u64, Answer>,
    base_pages: (u32, bool),
    /// the document information as the typed trailer shows it (`None` for an encrypted base: known finding K3)
    base_info: Option<String>,
    base_touched: bool,
    saves_since_reload: u64,
    failed_save_before: bool,
    out: Outcome,
    trace: Hasher64,
}

fn open_plain(bytes: &[u8], cached: bool, password: &[u8]) -> Result<SimFile, pdf::PdfError> {
    let ctl = SimCtl::new(cached, cached);
    ops::open(bytes, &ctl, false, password)
}

/// The base of a history: a stored file, or (family "fresh") a document that has never been saved:
/// an empty storage in which a one-page catalog was just created through the library's builder.
fn open_base(base: &Doc, cached: bool) -> Result<SimFile, pdf::PdfError> {
    if base.family != "fresh" {
        return open_plain(&base.bytes, cached, &base.password);
    }
    use pdf::build::{CatalogBuilder, PageBuilder};
    let ctl = SimCtl::new(cached, cached);
    let mut storage = pdf::file::FileOptions::uncached().cache(SimObjCache(ctl.clone()), SimStmCache(ctl.clone())).log(SimLog(ctl.clone())).storage();
    let mut page = PageBuilder::default();
    page.size(120.0, 80.0);
    let catalog = CatalogBuilder::from_pages(vec![page]).build(&mut storage)?;
    let root = storage.create(catalog)?;
    let trailer = pdf::file::Trailer { root, encrypt_dict: None, size: 0, id: vec!["fresh".into(), "fresh".into()], info_dict: None, prev_trailer_pos: None };
    Ok(pdf::file::File::new(storage, trailer))
}

impl<'a> Exec<'a> {
    fn flags(&self) -> String {
        let mut f = vec![];
        if self.case.base.inv.encrypted {
            f.push("encrypted base file");
        }
        if self.case.base.label.contains("junk") || self.case.base.label == "offset.pdf" {
            f.push("junk before the header");
        }
        if self.failed_save_before {
            f.push("after a failed save");
        }
        if self.saves_since_reload >= 1 {
            f.push("not the first save");
        }
        if self.case.cached {
            f.push("cached");
        }
        f.join(", ")
    }

    fn target_ref(&self, t: &Target) -> Option<PlainRef> {
        match t {
            Target::Handle(k) => {
                if self.handles.is_empty() {
                    None
                } else {
                    Some(self.handles[k % self.handles.len()])
                }
            }
            Target::Base(id) | Target::Missing(id) => Some(PlainRef { id: *id, gen: 0 }),
        }
    }

    /// read-your-writes through the open document (raw resolve and the cached typed path)
    fn check_read(&mut self, r: PlainRef, phase: &str) -> Result<(), (String, String)> {
        self.out.reads += 1;
        let exp = match self.expect.get(&r.id) {
            Some(e) => e.clone(),
            None => return Ok(()),
        };
        let res = self.file.resolver();
        let via = [("resolve", res.resolve(r)), ("get", res.get::<Primitive>(Ref::new(r)).map(|x| (*x).clone()))];
        for (how, got) in via {
            match got {
                Ok(p) => {
                    if let Err(why) = matches(&res, r, &p, &exp.v) {
                        return Err((format!("{}: {} does not return the last value written ({})", phase, how, self.flags()), format!("ref {} {}: {}", r.id, r.gen, why)));
                    }
                }
                Err(e) => {
                    return Err((format!("{}: {} of a written reference fails with {} ({})", phase, how, error_kind(&e), self.flags()), format!("ref {} {}", r.id, r.gen)));
                }
            }
        }
        Ok(())
    }

    fn write(&mut self, target: Option<PlainRef>, w: &WV, promise: Option<PromisedRef<Primitive>>) -> Result<(), (String, String)> {
        self.out.writes += 1;
        if let WV::Page { content } = w {
            if promise.is_some() {
                return Ok(());
            }
            let mut page = Page::new(self.file.trailer.root.pages.clone());
            // one page in three has its content in two parts
            let parts = if content.len() % 3 == 0 && content.len() >= 2 {
                let (a, b) = content.split_at(content.len() / 2);
                vec![Stream::new((), a.to_vec()), Stream::new((), b.to_vec())]
            } else {
                vec![Stream::new((), content.clone())]
            };
            page.contents = Some(pdf::content::Content { parts });
            page.resources = Some(MaybeRef::Direct(std::sync::Arc::new(Resources::default())));
            let mb = page_box(content);
            page.media_box = Some(Rectangle { left: mb[0], bottom: mb[1], right: mb[2], top: mb[3] });
            let node = PagesNode::Leaf(page);
            let result = match target {
                Some(t) => self.file.update(t, node).map(|h| (Some(t), h.get_ref().get_inner())),
                None => self.file.create(node).map(|h| (None, h.get_ref().get_inner())),
            };
            return self.record_write(result, w);
        }
        if let WV::Unwritable = w {
            if promise.is_some() || target.is_some() {
                return Ok(());
            }
            self.out.writes += 1;
            // two shapes: the serialisation fails at once, or only after it has created an object
            // of its own (a stream whose typed dictionary part is a page content: the content stream
            // is created, then the result is refused because it is not a dictionary)
            let nested_first = self.out.writes % 2 == 0;
            let result = if nested_first {
                let inner = pdf::content::Content { parts: vec![Stream::new((), vec![b'q', b' ', b'Q'])] };
                self.file.create(Stream::new(inner, vec![1u8, 2, 3])).map(|_| ())
            } else {
                self.file.create(Stream::new(Primitive::Integer(1), vec![1u8, 2, 3])).map(|_| ())
            };
            return match result {
                Err(_) => {
                    self.out.refused_updates += 1;
                    Ok(())
                }
                Ok(_) => Err(("a value whose serialisation fails was accepted by create".to_string(), String::new())),
            };
        }
        if let WV::CopyStream(src) = w {
            if promise.is_some() {
                return Ok(());
            }
            let made = {
                let res = self.file.resolver();
                let r = PlainRef { id: *src, gen: 0 };
                (|| -> Option<(Stream<()>, Vec<u8>)> {
                    let raw = match res.resolve(r).ok()? {
                        Primitive::Stream(p) => p.raw_data(&res).ok()?,
                        _ => return None,
                    };
                    let typed = res.get::<Stream<()>>(Ref::new(r)).ok()?;
                    let decoded = (*typed).data(&res).ok()?;
                    Some((Stream::from_compressed((), raw, typed.info.filters.clone()), decoded.to_vec()))
                })()
            };
            let (copy, decoded) = match made {
                Some(x) => x,
                None => return Ok(()), // the source is not a readable stream (any more): not a write
            };
            self.out.typed_copies += 1;
            let result = match target {
                Some(t) => self.file.update(t, copy).map(|h| (Some(t), h.get_ref().get_inner())),
                None => self.file.create(copy).map(|h| (None, h.get_ref().get_inner())),
            };
            return self.record_write(result, &WV::Decoded(decoded));
        }
        let prim = match to_primitive(&self.file, w) {
            Ok(p) => p,
            Err(_) => return Ok(()), // e.g. InFile source not readable: not a write
        };
        let result = match (target, promise) {
            (_, Some(p)) => {
                let r = p.get_inner();
                self.file.fulfill(p, prim).map(|h| (Some(r), h.get_ref().get_inner()))
            }
            (Some(t), None) => self.file.update(t, prim).map(|h| (Some(t), h.get_ref().get_inner())),
            (None, None) => self.file.create(prim).map(|h| (None, h.get_ref().get_inner())),
        };
        self.record_write(result, w)
    }

    fn record_write(&mut self, result: Result<(Option<PlainRef>, PlainRef), pdf::PdfError>, w: &WV) -> Result<(), (String, String)> {
        match result {
            Ok((passed, handed)) => {
                self.ever_written.insert(handed.id);
                if let Some(p) = passed {
                    self.ever_written.insert(p.id);
                    self.expect.insert(p.id, Expect { r: p, v: w.clone() });
                    if p.id < self.case.base.inv.size {
                        self.base_touched = true;
                    }
                }
                self.expect.insert(handed.id, Expect { r: handed, v: w.clone() });
                if !self.handles.contains(&handed) {
                    self.handles.push(handed);
                }
                Ok(())
            }
            Err(e) => Err((format!("write call failed with {} ({})", error_kind(&e), self.flags()), format!("{:?}", w))),
        }
    }

    fn must_fail(&self) -> Option<&'static str> {
        if !self.promises.is_empty() {
            return Some("unfulfilled promise");
        }
        if self.expect.values().any(|e| matches!(e.v, WV::InFile(_))) {
            return Some("stream whose data is still in the source file");
        }
        None
    }

    fn save(&mut self, env_fail: Option<u8>) -> Result<(), (String, String)> {
        let path = match env_fail {
            None => format!("{}/out.pdf", self.scratch),
            Some(0) => "/dev/full".to_string(),
            Some(_) => format!("{}/missing-directory/out.pdf", self.scratch),
        };
        let expected_failure = self.must_fail();
        let r = self.file.save_to(&path);
        match (r, expected_failure, env_fail) {
            (Err(_), Some(_), _) => {
                self.out.saves_failed_expected += 1;
                self.failed_save_before = true;
                Ok(())
            }
            (Err(_), None, Some(_)) => {
                self.out.env_faults += 1;
                self.failed_save_before = true;
                // the in-memory revision may have been appended; nothing durable changed
                self.saves_since_reload += 1;
                Ok(())
            }
            (Ok(()), _, Some(k)) => Err((format!("save into a refusing sink reported success (kind {})", k), String::new())),
            (Ok(()), Some(_), None) => {
                // The property does not demand that this save fails; it does demand that what it wrote
                // reloads correctly, which the InFile / promise bookkeeping cannot express. Not judged.
                self.promises.clear();
                self.expect.retain(|_, e| !matches!(e.v, WV::InFile(_)));
                self.after_successful_save(&path)
            }
            (Err(e), None, None) => Err((format!("save fails with {} although nothing prevents it ({})", error_kind(&e), self.flags()), format!("{}", e).chars().take(300).collect())),
            (Ok(()), None, None) => self.after_successful_save(&path),
        }
    }

    fn after_successful_save(&mut self, path: &str) -> Result<(), (String, String)> {
        self.out.saves_ok += 1;
        if self.saves_since_reload >= 1 {
            self.out.second_saves += 1;
        }
        let bytes = std::fs::read(path).map_err(|e| ("HARNESS: cannot read back the saved file".to_string(), e.to_string()))?;
        if !bytes.starts_with(&self.durable) {
            return Err((format!("the previous revision is not an unmodified prefix of the saved bytes ({})", self.flags()), format!("previous {} bytes, new {} bytes", self.durable.len(), bytes.len())));
        }
        // reload a fresh document from the saved bytes and compare with the model; the reader's
        // configuration alternates between strict and tolerant, cached and uncached
        let (tolerant, cached) = match self.out.saves_ok % 4 {
            0 => (false, self.case.cached),
            1 => (true, !self.case.cached),
            2 => (true, self.case.cached),
            _ => (false, !self.case.cached),
        };
        let ctl = SimCtl::new(cached, cached);
        let reloaded = match ops::open(&bytes, &ctl, tolerant, &self.case.base.password) {
            Ok(f) => f,
            Err(e) => return Err((format!("saved bytes do not load: {} ({})", error_kind(&e), self.flags()), format!("{}", e).chars().take(300).collect())),
        };
        {
            let res = reloaded.resolver();
            for e in self.expect.values() {
                const K3: &str = "encrypted base file: values written by save are stored unencrypted and do not read back";
                match res.resolve(e.r) {
                    Ok(p) => {
                        if let Err(why) = matches(&res, e.r, &p, &e.v) {
                            if self.case.base.inv.encrypted {
                                return Err((K3.to_string(), format!("ref {} {}: {}", e.r.id, e.r.gen, why)));
                            }
                            return Err((format!("after reload a written reference does not resolve to the last value written ({})", self.flags()), format!("ref {} {}: {}", e.r.id, e.r.gen, why)));
                        }
                    }
                    Err(err) => {
                        if self.case.base.inv.encrypted {
                            return Err((K3.to_string(), format!("ref {} {}: {}", e.r.id, e.r.gen, error_kind(&err))));
                        }
                        return Err((format!("after reload a written reference fails to resolve: {} ({})", error_kind(&err), self.flags()), format!("ref {} {}: {:?}", e.r.id, e.r.gen, e.v).chars().take(300).collect()));
                    }
                }
            }
            for (id, a) in &self.base_answers {
                if self.ever_written.contains(id) {
                    continue;
                }
                let got = ops::exec(&reloaded, &res, false, &Op::Resolve(*id));
                // "no such object" has three spellings (never defined / free / beyond the table); a number
                // that was undefined before and is written as a free entry by save is still no object
                let missing = |x: &Answer| !x.ok && (x.text.contains("NullRef") || x.text.contains("FreeObject") || x.text.contains("UnspecifiedXRefEntry"));
                if !got.same(a) && !(missing(&got) && missing(a)) {
                    return Err((format!("after reload an untouched object changed ({})", self.flags()), format!("object {}: before {} / after {}", id, a.text, got.text)));
                }
            }
            for (id, a) in &self.base_stream_answers {
                if self.ever_written.contains(id) {
                    continue;
                }
                let got = ops::exec(&reloaded, &res, false, &Op::StreamData(*id));
                if !got.same(a) {
                    return Err((format!("after reload the data of an untouched stream changed ({})", self.flags()), format!("object {}: before {} / after {}", id, a.text, got.text)));
                }
            }
        }
        if !self.base_touched {
            let pages_ok = reloaded.num_pages() == self.base_pages.0 && (reloaded.num_pages() == 0 || reloaded.get_page(0).is_ok() == self.base_pages.1);
            if !pages_ok {
                return Err((format!("after reload the page tree is not reachable as before ({})", self.flags()), format!("pages before {:?} after {}", self.base_pages, reloaded.num_pages())));
            }
        }
        // the document information is never written by a history: every save stores it again, and
        // what the trailer shows after a reload must be what it showed before
        if let Some(before) = &self.base_info {
            let after = format!("{:?}", reloaded.trailer.info_dict);
            if *before != after {
                return Err((format!("after reload the document information differs from the base file's ({})", self.flags()), format!("before {} after {}", before, after).chars().take(400).collect()));
            }
        }
        self.durable = bytes;
        self.durable_expect = self.expect.clone();
        self.durable_handles = self.handles.clone();
        self.saves_since_reload += 1;
        self.failed_save_before = false;
        Ok(())
    }

    fn reload(&mut self) -> Result<(), (String, String)> {
        self.out.reloads += 1;
        // a document that was never saved has no durable state: a restart starts over
        let reopened = if self.durable.is_empty() && self.case.base.family == "fresh" { open_base(&self.case.base, self.case.cached) } else { open_plain(&self.durable, self.case.cached, &self.case.base.password) };
        match reopened {
            Ok(f) => {
                self.file = f;
                self.promises.clear();
                self.expect = self.durable_expect.clone();
                self.handles = self.durable_handles.clone();
                self.saves_since_reload = 0;
                self.failed_save_before = false;
                Ok(())
            }
            Err(e) => Err((format!("durable bytes do not load at restart: {}", error_kind(&e)), String::new())),
        }
    }

    fn step(&mut self, op: &Op9) -> Result<(), (String, String)> {
        self.trace.str(op.kind());
        match op {
            Op9::Create(w) => self.write(None, w, None),
            Op9::Update(Target::Missing(n), w) => {
                // still missing? (an earlier accepted update may have defined it)
                if self.expect.contains_key(n) || matches!(w, WV::InFile(_) | WV::Page { .. } | WV::CopyStream(_) | WV::Unwritable) {
                    return Ok(());
                }
                let prim = match to_primitive(&self.file, w) {
                    Ok(p) => p,
                    Err(_) => return Ok(()),
                };
                self.out.writes += 1;
                let r = PlainRef { id: *n, gen: 0 };
                match self.file.update(r, prim) {
                    Ok(h) => self.record_write(Ok((Some(r), h.get_ref().get_inner())), w),
                    Err(_) => {
                        self.out.refused_updates += 1;
                        Ok(())
                    }
                }
            }
            Op9::Update(t, w) => match self.target_ref(t) {
                Some(r) => {
                    // a reference that an earlier promise handed out and that is still unfulfilled is
                    // fulfilled through the promise, not through update
                    if self.promises.iter().any(|p| p.get_inner() == r) {
                        return Ok(());
                    }
                    self.write(Some(r), w, None)
                }
                None => Ok(()),
            },
            Op9::Promise => {
                let p = self.file.promise::<Primitive>();
                self.handles.push(p.get_inner());
                self.promises.push(p);
                Ok(())
            }
            Op9::Fulfil(k, w) => {
                if self.promises.is_empty() || matches!(w, WV::InFile(_) | WV::Page { .. } | WV::CopyStream(_) | WV::Unwritable) {
                    return Ok(());
                }
                let idx = k % self.promises.len();
                let p = self.promises.remove(idx);
                self.write(None, w, Some(p))
            }
            Op9::Read(t) => match self.target_ref(t) {
                Some(r) => self.check_read(r, "before save"),
                None => Ok(()),
            },
            Op9::Save => self.save(None),
            Op9::SaveEnvFail(k) => self.save(Some(*k)),
            Op9::Reload => self.reload(),
        }
    }
}

pub fn run_case(case: &Case, scratch: &str) -> Outcome {
    let mut out = Outcome { violation: None, trace: 0, saves_ok: 0, saves_failed_expected: 0, env_faults: 0, reloads: 0, reads: 0, writes: 0, second_saves: 0, refused_updates: 0, typed_copies: 0 };
    clear_last_panic();
    let file = match open_base(&case.base, case.cached) {
        Ok(f) => f,
        Err(e) => {
            if case.base.family == "fresh" {
                out.violation = Some(("a one-page document cannot be built in an empty storage".into(), format!("{}", e).chars().take(300).collect()));
            }
            return out;
        }
    };
    // record the base file's answers on a fresh uncached document
    let mut base_answers = BTreeMap::new();
    let mut base_stream_answers = BTreeMap::new();
    let base_pages;
    let base_info;
    {
        let fresh = match open_base(&case.base, false) {
            Ok(f) => f,
            Err(_) => return out,
        };
        let res = fresh.resolver();
        let n = case.base.inv.objects.len();
        let stride = (n / 48).max(1);
        for (k, (id, kind)) in case.base.inv.objects.iter().enumerate() {
            if k % stride != 0 && n > 48 {
                continue;
            }
            base_answers.insert(*id, ops::exec(&fresh, &res, false, &Op::Resolve(*id)));
            if matches!(kind, ObjKind::Stream | ObjKind::Image | ObjKind::Form | ObjKind::ObjStm) {
                base_stream_answers.insert(*id, ops::exec(&fresh, &res, false, &Op::StreamData(*id)));
            }
        }
        base_pages = (fresh.num_pages(), fresh.num_pages() > 0 && fresh.get_page(0).is_ok());
        base_info = if case.base.inv.encrypted { None } else { Some(format!("{:?}", fresh.trailer.info_dict)) };
    }
    std::mem::swap(&mut out, &mut Outcome { violation: None, trace: 0, saves_ok: 0, saves_failed_expected: 0, env_faults: 0, reloads: 0, reads: 0, writes: 0, second_saves: 0, refused_updates: 0, typed_copies: 0 });
    let mut ex = Exec {
        case,
        scratch: scratch.to_string(),
        file,
        handles: vec![],
        promises: vec![],
        expect: BTreeMap::new(),
        ever_written: Default::default(),
        durable: case.base.bytes.to_vec(),
        durable_expect: BTreeMap::new(),
        durable_handles: vec![],
        base_answers,
        base_stream_answers,
        base_pages,
        base_info,
        base_touched: false,
        saves_since_reload: 0,
        failed_save_before: false,
        out,
        trace: Hasher64::new(),
    };
    // the history, then the epilogue: replace offending objects, fulfil promises, save, verify
    let mut all_ops: Vec<Op9> = case.ops.clone();
    all_ops.push(Op9::Read(Target::Handle(0)));
    let n_hist = all_ops.len();
    let mut k = 0;
    let mut epilogue_done = false;
    loop {
        let op = if k < n_hist {
            all_ops[k].clone()
        } else if !epilogue_done {
            // build the epilogue from the current state
            let mut tail = vec![];
            for e in ex.expect.values() {
                if matches!(e.v, WV::InFile(_)) {
                    tail.push(Op9::Update(Target::Base(e.r.id), WV::Val(Val::dict(vec![("Replaced", Val::Bool(true))]))));
                }
            }
            for i in 0..ex.promises.len() {
                tail.push(Op9::Fulfil(0, WV::Val(Val::Int(7000 + i as i64))));
            }
            tail.push(Op9::Save);
            all_ops.extend(tail);
            epilogue_done = true;
            continue;
        } else if k < all_ops.len() {
            all_ops[k].clone()
        } else {
            break;
        };
        k += 1;
        let r = std::panic::catch_unwind(std::panic::AssertUnwindSafe(|| ex.step(&op)));
        match r {
            Ok(Ok(())) => {}
            Ok(Err((sig, detail))) => {
                ex.out.violation = Some((sig, format!("at step {} ({}): {}", k - 1, op.kind(), detail)));
                break;
            }
            Err(_) => {
                let p = take_last_panic().unwrap_or_else(|| "panic".into());
                ex.out.violation = Some((format!("panic in {}: {}", op.kind(), panic_signature(&p)), p));
                break;
            }
        }
    }
    ex.out.trace = ex.trace.finish();
    ex.out
}

// ---------------------------------------------------------------------------------------------

pub struct C09 {
    pool: Option<Pool>,
    bases: Vec<Arc<Doc>>,
    scratch: String,
    prepared: bool,
    excluded_values: u64,
}

fn gen_val(rng: &mut Rng, depth: usize) -> Val {
    let atoms = 9;
    let pick = rng.below(if depth == 0 { atoms } else { atoms + 3 });
    match pick {
        0 => Val::Int(rng.range(-1000, 1000)),
        1 => Val::Int(*rng.pick(&[0, 1, -1, i32::MAX as i64, i32::MIN as i64 + 1, 65536])),
        2 => Val::Real(*rng.pick(&[0.5, -12.25, 1000.125, 0.0625, 3.75, 0.00005, -0.00000015, 123456.79, 16777216.0, 1e16, 3.0e38])),
        3 => Val::Bool(rng.coin()),
        4 => Val::Name(rng.pick(&["Alpha", "B2", "Type", "x-y", "N.1", "a b", "a/b", "a(b", "a#20b", "caf\u{e9}", "50%", "<x>"]).to_string()),
        5 => Val::Str(rng.pick(&[&b"hello"[..], b"(paren) \\ back", b"", b"\xfe\xff\x00A", b"two\nlines"]).to_vec()),
        6 => Val::Ref(1 + rng.below(3) as u32, 0),
        7 => Val::Null,
        8 => Val::Str((0..rng.usize(6)).map(|_| rng.below(256) as u8).collect()),
        9 | 10 => Val::Arr((0..rng.usize(4)).map(|_| gen_val(rng, depth - 1)).collect()),
        _ => {
            let n = rng.usize(4);
            let mut d: Dict = vec![];
            for i in 0..n {
                let k = format!("{}{}", rng.pick(&["K", "Key", "A", "a b", "x/y", "caf\u{e9}", "#", "(p)"]), i);
                d.push((k, gen_val(rng, depth - 1)));
            }
            Val::Dict(d)
        }
    }
}

/// Does the value survive the serializer/parser when written as a dictionary value? (C04's business
/// if not; such values are excluded here and counted.)
fn roundtrip_safe(v: &Val) -> bool {
    let mut d = pdf::primitive::Dictionary::new();
    d.insert("V", val_to_prim(v));
    d.insert("Z", Primitive::Integer(1));
    let mut bytes = vec![];
    if Primitive::Dictionary(d.clone()).serialize(&mut bytes).is_err() {
        return false;
    }
    match pdf::parser::parse(&bytes, &NoResolve, pdf::parser::ParseFlags::ANY) {
        Ok(p) => prim_eq(&p, &Primitive::Dictionary(d)),
        Err(_) => false,
    }
}
fn contains_null_in_dict(v: &Val) -> bool {
    match v {
        Val::Dict(d) => d.iter().any(|(_, x)| *x == Val::Null || contains_null_in_dict(x)),
        Val::Arr(a) => a.iter().any(contains_null_in_dict),
        _ => false,
    }
}

impl C09 {
    pub fn new() -> C09 {
        C09 { pool: None, bases: vec![], scratch: String::new(), prepared: false, excluded_values: 0 }
    }
    fn prepare(&mut self, ctx: &WorkerCtx) {
        if self.prepared {
            return;
        }
        let mut pool = Pool::new(&ctx.repo, ctx.verif_seed);
        let mut bases = vec![];
        for k in 0..pool.corpus_len() {
            if let Some(d) = pool.corpus(k) {
                if d.inv.loadable && d.bytes.len() < 200_000 {
                    bases.push(d);
                }
            }
        }
        // generated bases: classic and stream xref, compressed objects, 0..1019 bytes of junk before the header
        let n = if ctx.tier == Tier::Quick { 16 } else { 96 };
        for k in 0..n {
            let mut rng = Rng::new(run_seed(ctx.verif_seed, "C09/base", k));
            let mut layout = Layout::random(&mut rng);
            let junk_len = match k % 4 {
                0 => 0,
                1 => 1 + rng.usize(16),
                2 => rng.usize(1020),
                _ => 0,
            };
            layout.junk = (0..junk_len).map(|_| *rng.pick(b"junk \n\r\t0123456789%<>[]/()")).collect();
            let spec = if k % 3 == 0 { families::two_leaf(&mut rng, &layout) } else { let o = families::RichOpts::random(&mut rng); families::rich(&mut rng, &o, &layout) };
            let w = docgen::write_doc(&spec);
            if let Err(e) = docgen::self_check(&spec, &w) {
                eprintln!("HARNESS-ERROR: writer self-check failed (C09 base {}): {}", k, e);
                std::process::exit(2);
            }
            let label = format!("gen{}{}{}{}", k, if layout.xref_stream { "-xrefstream" } else { "-classic" }, if layout.compress { "-objstm" } else { "" }, if junk_len > 0 { "-junk" } else { "" });
            let d = Doc::from_bytes(&label, "generated", w.bytes, b"");
            if !d.inv.loadable {
                eprintln!("HARNESS-ERROR: generated base {} does not load", label);
                std::process::exit(2);
            }
            bases.push(Arc::new(d));
        }
        // bases with an update history of their own: several revisions, freed and reused numbers
        // (generations above 0), objects moved between direct and compressed storage, /Prev chains
        let n_hist = if ctx.tier == Tier::Quick { 64 } else { 192 };
        for k in 0..n_hist {
            let mut rng = Rng::new(run_seed(ctx.verif_seed, "C09/history-base", k));
            // long histories (up to 8 revisions): numbers are freed and reused often enough
            let mut h = crate::c02::gen_history(&mut rng, Tier::Thorough);
            h.relaxed_reuse = false;
            // (an encrypted base ends in the listed finding K3 at the first string written; the corpus has five)
            h.encrypt = None;
            let spec = crate::c02::compile(&h);
            let w = docgen::write_doc(&spec);
            if let Err(e) = docgen::self_check(&spec, &w) {
                eprintln!("HARNESS-ERROR: writer self-check failed (C09 history base {}): {}", k, e);
                std::process::exit(2);
            }
            if std::env::var("VERIF_DEBUG_BASES").is_ok() {
                let model = docgen::model_after(&spec, spec.revisions.len());
                let n = model.iter().filter(|(_, l)| matches!(l, docgen::Latest::Direct { gen, body: docgen::Body::Plain(Val::Dict(_)), .. } if *gen >= 1)).count();
                let any = model.iter().filter(|(_, l)| matches!(l, docgen::Latest::Direct { gen, .. } if *gen >= 1)).count();
                eprintln!("ANYGEN {}", any);
                eprintln!("BASE hist{} revs={} dict objects with generation>=1: {}", k, h.revs.len(), n);
            }
            let label = format!("hist{}-{}rev{}", k, h.revs.len(), if h.junk.is_empty() { "" } else { "-junk" });
            let d = Doc::from_bytes(&label, "generated", w.bytes, b"");
            if d.inv.loadable {
                bases.push(Arc::new(d));
            }
        }
        // a document that has never been saved (twice: it gets a share comparable to a family)
        for _ in 0..2 {
            bases.push(Arc::new(Doc::from_bytes("fresh-storage", "fresh", vec![], b"")));
        }
        self.pool = Some(pool);
        self.bases = bases;
        let work = std::env::var("VERIF_WORKDIR").unwrap_or_else(|_| format!("{}/.work", std::env::var("VERIF_ROOT").unwrap_or_else(|_| "/verif".into())));
        self.scratch = format!("{}/c09-{}", work, std::process::id());
        let _ = std::fs::create_dir_all(&self.scratch);
        self.prepared = true;
    }

    fn gen_wv(&mut self, rng: &mut Rng, base: &Doc, allow_infile: bool) -> WV {
        if allow_infile && rng.chance(1, 12) {
            let streams: Vec<u64> = base.inv.objects.iter().filter(|(_, k)| matches!(k, ObjKind::Stream | ObjKind::Image | ObjKind::Form)).map(|x| x.0).collect();
            if !streams.is_empty() {
                return WV::InFile(*rng.pick(&streams));
            }
        }
        if rng.chance(1, 40) {
            return WV::Unwritable;
        }
        if rng.chance(1, 10) {
            let streams: Vec<u64> = base.inv.objects.iter().filter(|(_, k)| matches!(k, ObjKind::Stream | ObjKind::Image | ObjKind::Form)).map(|x| x.0).collect();
            if !streams.is_empty() {
                return WV::CopyStream(*rng.pick(&streams));
            }
        }
        if rng.chance(1, 10) {
            return WV::Page { content: format!("q 1 0 0 1 {} {} cm 0 0 10 10 re f Q", rng.below(100), rng.below(100)).into_bytes() };
        }
        if rng.chance(1, 5) {
            let n = rng.usize(40);
            let data: Vec<u8> = (0..n).map(|_| rng.below(256) as u8).collect();
            let mut dict: Dict = vec![];
            if rng.coin() {
                dict.push(("Note".into(), Val::Int(rng.range(0, 99))));
            }
            return WV::Stream { dict, data };
        }
        for _ in 0..20 {
            let depth = rng.usize(3);
            let v = gen_val(rng, depth);
            // a dictionary *value* null is dropped by design of PDF (null entry == absent entry)
            if contains_null_in_dict(&v) {
                continue;
            }
            // a value that the library's own serializer and parser do not carry through as a
            // dictionary entry is counted (diagnostic for the report) and written all the same: if it
            // does not read back after save, that is a violation here
            if !roundtrip_safe(&v) {
                self.excluded_values += 1;
            }
            return WV::Val(v);
        }
        WV::Val(Val::Int(1))
    }

    fn gen_case(&mut self, ctx: &WorkerCtx, i: u64) -> Case {
        let mut rng = Rng::new(run_seed(ctx.verif_seed, "C09", i));
        // encrypted base files end in the known finding K3 as soon as a string or stream is written;
        // they get a small share of the runs so that the other base files are explored in depth
        let mut base = self.bases[rng.usize(self.bases.len())].clone();
        if base.inv.encrypted && !rng.chance(1, 8) {
            base = self.bases[rng.usize(self.bases.len())].clone();
        }
        // even runs: fault-free batch; odd runs: fault-injecting batch
        let faults = i % 2 == 1;
        let eligible: Vec<u64> = base
            .inv
            .objects
            .iter()
            .filter(|(_, k)| matches!(k, ObjKind::Font | ObjKind::Image | ObjKind::Form | ObjKind::Stream | ObjKind::Annot | ObjKind::Field | ObjKind::Outline | ObjKind::NameTree | ObjKind::NumTree | ObjKind::Resources | ObjKind::Other))
            .map(|x| x.0)
            .filter(|id| !base.inv.trailer_refs.contains(id) && !base.inv.structural.contains(id))
            .collect();
        let missing: Vec<u64> = base.inv.objects.iter().filter(|(_, k)| *k == ObjKind::Unreadable).map(|x| x.0).collect();
        let len = 1 + rng.usize(if ctx.tier == Tier::Quick { 12 } else { 20 });
        let mut ops_v = vec![];
        for _ in 0..len {
            let op = match rng.below(20) {
                0..=3 => Op9::Create(self.gen_wv(&mut rng, &base, faults)),
                4 if !missing.is_empty() && rng.chance(1, 4) => Op9::Update(Target::Missing(*rng.pick(&missing)), self.gen_wv(&mut rng, &base, false)),
                4..=6 if !eligible.is_empty() => Op9::Update(Target::Base(*rng.pick(&eligible)), self.gen_wv(&mut rng, &base, faults)),
                4..=8 => Op9::Update(Target::Handle(rng.usize(8)), self.gen_wv(&mut rng, &base, faults)),
                9 => Op9::Promise,
                10 | 11 => Op9::Fulfil(rng.usize(4), self.gen_wv(&mut rng, &base, false)),
                12..=14 => Op9::Read(if rng.coin() || eligible.is_empty() { Target::Handle(rng.usize(8)) } else { Target::Base(*rng.pick(&eligible)) }),
                15..=17 => Op9::Save,
                18 if faults => Op9::SaveEnvFail(rng.below(2) as u8),
                18 => Op9::Save,
                _ => Op9::Reload,
            };
            ops_v.push(op);
        }
        Case { base, cached: rng.coin(), ops: ops_v }
    }

    fn shrink(&mut self, case: &Case, sig: &str) -> (Case, String, String) {
        fn base(s: &str) -> &str {
            s.rsplit_once(" (").map(|x| x.0).unwrap_or(s)
        }
        let mut best = case.clone();
        let mut detail = String::new();
        let mut final_sig = sig.to_string();
        let sig = base(sig).to_string();
        let sig = sig.as_str();
        // a history that never names a base object is retried on the simplest base file
        let names_base = best.ops.iter().any(|o| matches!(o, Op9::Update(Target::Base(_), _) | Op9::Read(Target::Base(_)) | Op9::Create(WV::InFile(_)) | Op9::Update(_, WV::InFile(_))));
        if !names_base {
            if let Some(simple) = self.bases.iter().find(|b| b.label.starts_with("gen") && b.label.contains("-classic") && !b.label.contains("junk")).cloned() {
                let mut c = best.clone();
                c.base = simple;
                if let Some((s, d)) = run_case(&c, &self.scratch).violation {
                    if base(&s) == sig {
                        best = c;
                        detail = d;
                        final_sig = s;
                    }
                }
            }
        }
        if best.cached {
            let mut c = best.clone();
            c.cached = false;
            if let Some((s, d)) = run_case(&c, &self.scratch).violation {
                if base(&s) == sig {
                    best = c;
                    detail = d;
                    final_sig = s;
                }
            }
        }
        let mut budget = 150;
        let mut progress = true;
        while progress && budget > 0 {
            progress = false;
            for k in 0..best.ops.len() {
                if budget <= 0 {
                    break;
                }
                let mut c = best.clone();
                c.ops.remove(k);
                budget -= 1;
                let out = run_case(&c, &self.scratch);
                if let Some((s, d)) = out.violation {
                    if base(&s) == sig {
                        best = c;
                        detail = d;
                        final_sig = s;
                        progress = true;
                        break;
                    }
                }
            }
            if !progress {
                // simplify values
                for k in 0..best.ops.len() {
                    if budget <= 0 {
                        break;
                    }
                    let simpler = match &best.ops[k] {
                        Op9::Create(w) if *w != WV::Val(Val::Int(1)) && !matches!(w, WV::InFile(_) | WV::Page { .. } | WV::CopyStream(_) | WV::Unwritable) => Some(Op9::Create(WV::Val(Val::Int(1)))),
                        Op9::Update(t, w) if *w != WV::Val(Val::Int(1)) && !matches!(w, WV::InFile(_) | WV::Page { .. } | WV::CopyStream(_) | WV::Unwritable) => Some(Op9::Update(t.clone(), WV::Val(Val::Int(1)))),
                        _ => None,
                    };
                    if let Some(s_op) = simpler {
                        let mut c = best.clone();
                        c.ops[k] = s_op;
                        budget -= 1;
                        let out = run_case(&c, &self.scratch);
                        if let Some((s, d)) = out.violation {
                            if base(&s) == sig {
                                best = c;
                                detail = d;
                                final_sig = s;
                                progress = true;
                                break;
                            }
                        }
                    }
                }
            }
        }
        (best, detail, final_sig)
    }
}

impl Check for C09 {
    fn info(&self) -> CheckInfo {
        CheckInfo {
            id: "C09",
            level: "exploration",
            rule: "one run = one history of 1-20 operations over {create, update(base object | earlier reference), promise, fulfil, read, save, failing save (unfulfilled promise / stream still in the source file / refusing sink), dirty restart} on a base file (corpus files <200 KB and generated files with classic or stream xref, compressed objects, 0-1019 junk bytes before the header), caches on or off, always closed by: replace offending objects, fulfil promises, save, reload. Checked step by step against a map model: read-your-writes, prefix preservation, every written reference (passed and handed), every untouched object and the document information (/Info with dates in every time-zone form in the history documents) after reload. Non-trivial = at least one successful save followed by a reload comparison; distinct = hash of the operation-kind sequence and configuration",
            assumptions: vec![
                "written values: integers, reals (incl. 5e-5, 1.5e-7, 1e16, 3e38), names, strings, references, null, arrays and dictionaries up to depth 2, streams, typed pages; integers and reals of equal numeric value are identified when compared; a null dictionary entry is not written (it means absent)".into(),
                "update targets in base files exclude page-tree nodes, object streams, cross-reference streams, non-dictionary objects, trailer-referenced objects and every object the document reads while it is opened (observed through the Log seam): overwriting those with arbitrary values makes the document itself invalid, which is the caller's doing".into(),
                "untouched objects of large base files are compared on a deterministic sample of 48 objects".into(),
                "durability is judged on the bytes File::save_to wrote to a scratch file; the file system itself is real (page cache), only the refusing sinks (/dev/full, missing directory) are injected".into(),
            ],
            components_real: vec!["pdf crate (Updater, save, xref writer, parser, caches)", "std::fs write path used by File::save_to"],
            components_stub: vec![],
            per_run_timeout_s: 60,
            required_probes: vec!["saves_ok", "saves_failed_expected", "env_faults", "reloads", "second_saves"],
            exhaustive: false,
        }
    }
    fn total_runs(&self, tier: Tier) -> u64 {
        match tier {
            Tier::Quick => 30_000,
            Tier::Thorough => 1_000_000,
        }
    }
    fn run(&mut self, ctx: &WorkerCtx, i: u64) -> RunReport {
        self.prepare(ctx);
        let mut rep = RunReport::default();
        let case = self.gen_case(ctx, i);
        let out = run_case(&case, &self.scratch);
        let mut h = Hasher64::new();
        h.u64(out.trace);
        h.str(&case.base.label);
        h.u64(case.cached as u64);
        h.u64(out.saves_ok * 1_000_003 + out.saves_failed_expected * 10_007 + out.reads * 101 + out.writes);
        h.str(out.violation.as_ref().map(|v| v.0.as_str()).unwrap_or("held"));
        rep.trace_hash = h.finish();
        rep.nontrivial = out.saves_ok > 0;
        rep.count("saves_ok", out.saves_ok);
        rep.count("saves_failed_expected", out.saves_failed_expected);
        rep.count("env_faults", out.env_faults);
        rep.count("reloads", out.reloads);
        rep.count("reads", out.reads);
        rep.count("writes", out.writes);
        rep.count("second_saves", out.second_saves);
        rep.count("updates_of_missing_numbers_refused", out.refused_updates);
        rep.count("typed_stream_copies", out.typed_copies);
        rep.count(if i % 2 == 1 { "fault_batch_runs" } else { "fault_free_batch_runs" }, 1);
        rep.count("values_not_roundtrip_safe_as_dictionary_entry", std::mem::take(&mut self.excluded_values));
        if let Some((sig, detail)) = out.violation {
            let (c, d, final_sig) = self.shrink(&case, &sig);
            rep.violations.push(Violation { signature: final_sig, detail: if d.is_empty() { detail } else { d }, case: c.to_json() });
        }
        if i < 3 {
            rep.sample = Some(json!({"run": i, "base": case.base.label, "cached": case.cached, "ops": case.ops.iter().map(|o| o.to_json()).collect::<Vec<_>>()}));
        }
        rep
    }
    fn replay(&mut self, ctx: &WorkerCtx, case: &J) -> Vec<Violation> {
        self.prepare(ctx);
        let c = match Case::from_json(case, &ctx.repo) {
            Some(c) => c,
            None => return vec![],
        };
        let out = run_case(&c, &self.scratch);
        out.violation.into_iter().map(|(s, d)| Violation { signature: s, detail: d, case: case.clone() }).collect()
    }
}
