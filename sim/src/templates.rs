//! Typed templates for C14: small, valid documents (written by the harness's writer) whose
//! reference and numeric fields are the places where hostile structure is planted.

use crate::docgen::*;
use crate::families;
use crate::rng::Rng;
use std::collections::BTreeMap;

fn rect(a: i64, b: i64, c: i64, d: i64) -> Val {
    Val::ints(&[a, b, c, d])
}

fn finish_classic(b: Builder, root: u32) -> DocSpec {
    let mut rng = Rng::new(1);
    b.finish(root, &Layout::classic(), &mut rng)
}

fn base(b: &mut Builder, extra_cat: Vec<(&str, Val)>, res: Val, contents: Option<u32>) -> u32 {
    let catalog = b.reserve();
    let pages = b.reserve();
    let page = b.reserve();
    let mut pd = vec![("Type", Val::name("Page")), ("Parent", Val::r(pages)), ("MediaBox", rect(0, 0, 200, 200)), ("Resources", res)];
    if let Some(c) = contents {
        pd.push(("Contents", Val::r(c)));
    }
    b.put(page, Val::dict(pd));
    b.put(pages, Val::dict(vec![("Type", Val::name("Pages")), ("Kids", Val::Arr(vec![Val::r(page)])), ("Count", Val::Int(1))]));
    let mut cat = vec![("Type", Val::name("Catalog")), ("Pages", Val::r(pages))];
    cat.extend(extra_cat);
    b.put(catalog, Val::dict(cat));
    catalog
}

/// nested page tree with parent links and counts
pub fn page_tree() -> DocSpec {
    let mut b = Builder::new();
    let catalog = b.reserve();
    let root = b.reserve();
    let mid = b.reserve();
    let l1 = b.add(Val::dict(vec![("Type", Val::name("Page")), ("Parent", Val::r(mid)), ("MediaBox", rect(0, 0, 100, 100)), ("Resources", Val::dict(vec![]))]));
    let l2 = b.add(Val::dict(vec![("Type", Val::name("Page")), ("Parent", Val::r(root)), ("Resources", Val::dict(vec![])), ("Rotate", Val::Int(90))]));
    b.put(mid, Val::dict(vec![("Type", Val::name("Pages")), ("Parent", Val::r(root)), ("Kids", Val::Arr(vec![Val::r(l1)])), ("Count", Val::Int(1)), ("CropBox", rect(1, 1, 50, 50))]));
    b.put(root, Val::dict(vec![("Type", Val::name("Pages")), ("Kids", Val::Arr(vec![Val::r(mid), Val::r(l2)])), ("Count", Val::Int(2)), ("MediaBox", rect(0, 0, 300, 300))]));
    b.put(catalog, Val::dict(vec![("Type", Val::name("Catalog")), ("Pages", Val::r(root))]));
    finish_classic(b, catalog)
}

/// name tree (/Names /Dests), number tree (/PageLabels), outlines
pub fn trees() -> DocSpec {
    let mut b = Builder::new();
    let nt_root = b.reserve();
    let nt_mid = b.reserve();
    let nt_leaf = b.add(Val::dict(vec![("Limits", Val::Arr(vec![Val::Str(b"a".to_vec()), Val::Str(b"b".to_vec())])), ("Names", Val::Arr(vec![Val::Str(b"a".to_vec()), Val::Arr(vec![Val::r(3), Val::name("Fit")]), Val::Str(b"b".to_vec()), Val::Arr(vec![Val::r(3), Val::name("FitR"), Val::Int(0), Val::Int(0), Val::Int(10), Val::Int(10)])]))]));
    b.put(nt_mid, Val::dict(vec![("Limits", Val::Arr(vec![Val::Str(b"a".to_vec()), Val::Str(b"b".to_vec())])), ("Kids", Val::Arr(vec![Val::r(nt_leaf)]))]));
    b.put(nt_root, Val::dict(vec![("Kids", Val::Arr(vec![Val::r(nt_mid)]))]));
    let names = b.add(Val::dict(vec![("Dests", Val::r(nt_root))]));
    let lt_root = b.reserve();
    let lt_leaf = b.add(Val::dict(vec![("Limits", Val::ints(&[0, 1])), ("Nums", Val::Arr(vec![Val::Int(0), Val::dict(vec![("S", Val::name("D")), ("St", Val::Int(1))]), Val::Int(1), Val::dict(vec![("S", Val::name("r"))])]))]));
    b.put(lt_root, Val::dict(vec![("Kids", Val::Arr(vec![Val::r(lt_leaf)]))]));
    let outlines = b.reserve();
    let o1 = b.reserve();
    let o2 = b.reserve();
    b.put(o1, Val::dict(vec![("Title", Val::Str(b"1".to_vec())), ("Parent", Val::r(outlines)), ("Next", Val::r(o2)), ("First", Val::r(o2)), ("Count", Val::Int(1))]));
    b.put(o2, Val::dict(vec![("Title", Val::Str(b"2".to_vec())), ("Parent", Val::r(outlines)), ("Prev", Val::r(o1))]));
    b.put(outlines, Val::dict(vec![("Type", Val::name("Outlines")), ("First", Val::r(o1)), ("Last", Val::r(o2)), ("Count", Val::Int(2))]));
    let catalog = base(&mut b, vec![("Names", Val::r(names)), ("PageLabels", Val::r(lt_root)), ("Outlines", Val::r(outlines))], Val::dict(vec![]), None);
    finish_classic(b, catalog)
}

/// Type0 font -> descendant -> descriptor -> font file, /W forms, simple font with /Differences
pub fn fonts() -> DocSpec {
    let mut b = Builder::new();
    let ff = b.add_stream(vec![("Length1".into(), Val::Int(4))], b"font".to_vec());
    let fd = b.add(Val::dict(vec![("Type", Val::name("FontDescriptor")), ("FontName", Val::name("F")), ("Flags", Val::Int(4)), ("FontBBox", rect(0, 0, 1000, 1000)), ("ItalicAngle", Val::Int(0)), ("FontFile2", Val::r(ff))]));
    let warr = b.add(Val::ints(&[600, 610]));
    let cid = b.add(Val::dict(vec![
        ("Type", Val::name("Font")),
        ("Subtype", Val::name("CIDFontType2")),
        ("BaseFont", Val::name("F")),
        ("CIDSystemInfo", Val::dict(vec![("Registry", Val::Str(b"Adobe".to_vec())), ("Ordering", Val::Str(b"Identity".to_vec())), ("Supplement", Val::Int(0))])),
        ("FontDescriptor", Val::r(fd)),
        ("DW", Val::Int(900)),
        ("W", Val::Arr(vec![Val::Int(1), Val::Arr(vec![Val::Int(500), Val::Int(510)]), Val::Int(10), Val::Int(12), Val::Int(700), Val::Int(40), Val::r(warr)])),
        ("CIDToGIDMap", Val::name("Identity")),
    ]));
    let tu = b.add_stream(vec![], families::cmap_text(&[(1, "x")], &[(0x30, 0x32, 0x41)]));
    let f0 = b.add(Val::dict(vec![("Type", Val::name("Font")), ("Subtype", Val::name("Type0")), ("BaseFont", Val::name("F")), ("Encoding", Val::name("Identity-H")), ("DescendantFonts", Val::Arr(vec![Val::r(cid)])), ("ToUnicode", Val::r(tu))]));
    let enc = b.add(Val::dict(vec![("Type", Val::name("Encoding")), ("BaseEncoding", Val::name("WinAnsiEncoding")), ("Differences", Val::Arr(vec![Val::Int(65), Val::name("A"), Val::name("B"), Val::Int(200), Val::name("C")]))]));
    let f1 = b.add(Val::dict(vec![
        ("Type", Val::name("Font")),
        ("Subtype", Val::name("Type1")),
        ("BaseFont", Val::name("S")),
        ("FirstChar", Val::Int(65)),
        ("LastChar", Val::Int(67)),
        ("Widths", Val::ints(&[500, 510, 520])),
        ("Encoding", Val::r(enc)),
    ]));
    // /W groups may come in any order: a higher segment first, then lower ones, then an overlapping one
    let cid2 = b.add(Val::dict(vec![
        ("Type", Val::name("Font")),
        ("Subtype", Val::name("CIDFontType0")),
        ("BaseFont", Val::name("G")),
        ("CIDSystemInfo", Val::dict(vec![("Registry", Val::Str(b"Adobe".to_vec())), ("Ordering", Val::Str(b"Identity".to_vec())), ("Supplement", Val::Int(0))])),
        ("FontDescriptor", Val::r(fd)),
        ("W", Val::Arr(vec![Val::Int(100), Val::Arr(vec![Val::Int(500), Val::Int(600)]), Val::Int(10), Val::Arr(vec![Val::Int(700), Val::Int(800)]), Val::Int(50), Val::Int(60), Val::Int(650), Val::Int(99), Val::Arr(vec![Val::Int(1), Val::Int(2), Val::Int(3)])])),
    ]));
    let f2 = b.add(Val::dict(vec![("Type", Val::name("Font")), ("Subtype", Val::name("Type0")), ("BaseFont", Val::name("G")), ("Encoding", Val::name("Identity-H")), ("DescendantFonts", Val::Arr(vec![Val::r(cid2)]))]));
    let content = b.add_stream(vec![], b"BT /F0 12 Tf (a) Tj /F1 10 Tf (b) Tj /F2 9 Tf (c) Tj ET".to_vec());
    // graphics state parameter dictionaries: a font pair [font size], a dash pattern, numbers
    let gs = b.add(Val::dict(vec![
        ("Type", Val::name("ExtGState")),
        ("Font", Val::Arr(vec![Val::r(f1), Val::Int(12)])),
        ("LW", Val::Int(2)),
        ("D", Val::Arr(vec![Val::ints(&[3, 2]), Val::Int(0)])),
        ("CA", Val::Real(0.5)),
        ("SMask", Val::name("None")),
    ]));
    let catalog = base(
        &mut b,
        vec![],
        Val::dict(vec![("Font", Val::dict(vec![("F0", Val::r(f0)), ("F1", Val::r(f1)), ("F2", Val::r(f2))])), ("ExtGState", Val::dict(vec![("GS1", Val::r(gs)), ("GS2", Val::dict(vec![("Font", Val::Arr(vec![Val::r(f0), Val::Real(9.5)]))]))]))]),
        Some(content),
    );
    finish_classic(b, catalog)
}

/// colour spaces and all four function types
pub fn colors() -> DocSpec {
    let mut b = Builder::new();
    let f2 = b.add(Val::dict(vec![("FunctionType", Val::Int(2)), ("Domain", Val::ints(&[0, 1])), ("C0", Val::ints(&[0, 0, 0])), ("C1", Val::ints(&[1, 1, 1])), ("N", Val::Int(1))]));
    let f0 = b.add_stream(
        vec![("FunctionType".into(), Val::Int(0)), ("Domain".into(), Val::ints(&[0, 1])), ("Range".into(), Val::ints(&[0, 1, 0, 1, 0, 1])), ("Size".into(), Val::ints(&[4])), ("BitsPerSample".into(), Val::Int(8))],
        (0..12).collect(),
    );
    let f4 = b.add_stream(vec![("FunctionType".into(), Val::Int(4)), ("Domain".into(), Val::ints(&[0, 1])), ("Range".into(), Val::ints(&[0, 1, 0, 1, 0, 1]))], b"{ dup dup 0.5 mul exch 2 index add }".to_vec());
    let f3 = b.add(Val::dict(vec![("FunctionType", Val::Int(3)), ("Domain", Val::ints(&[0, 1])), ("Functions", Val::Arr(vec![Val::r(f2)])), ("Bounds", Val::Arr(vec![])), ("Encode", Val::ints(&[0, 1]))]));
    let icc = b.add_stream(vec![("N".into(), Val::Int(3)), ("Alternate".into(), Val::name("DeviceRGB"))], vec![0u8; 16]);
    let lookup = b.add_stream(vec![], vec![1, 2, 3, 4, 5, 6]);
    let cs = Val::dict(vec![
        ("C0", Val::Arr(vec![Val::name("Indexed"), Val::name("DeviceRGB"), Val::Int(1), Val::r(lookup)])),
        ("C1", Val::Arr(vec![Val::name("ICCBased"), Val::r(icc)])),
        ("C2", Val::Arr(vec![Val::name("Separation"), Val::name("Spot"), Val::name("DeviceRGB"), Val::r(f2)])),
        ("C3", Val::Arr(vec![Val::name("DeviceN"), Val::Arr(vec![Val::name("A"), Val::name("B")]), Val::name("DeviceCMYK"), Val::r(f4)])),
        ("C4", Val::Arr(vec![Val::name("Separation"), Val::name("S2"), Val::Arr(vec![Val::name("Indexed"), Val::name("DeviceGray"), Val::Int(2), Val::Str(vec![0, 1, 2])]), Val::r(f0)])),
        ("C5", Val::Arr(vec![Val::name("Separation"), Val::name("S3"), Val::name("DeviceGray"), Val::r(f3)])),
    ]);
    // colour spaces stored as indirect objects that refer to each other (alternate / base spaces)
    let ind_base = b.add(Val::Arr(vec![Val::name("ICCBased"), Val::r(icc)]));
    let ind_dn = b.add(Val::Arr(vec![Val::name("DeviceN"), Val::Arr(vec![Val::name("Spot")]), Val::r(ind_base), Val::r(f2)]));
    let ind_sep = b.add(Val::Arr(vec![Val::name("Separation"), Val::name("S4"), Val::r(ind_dn), Val::r(f2)]));
    let ind_idx = b.add(Val::Arr(vec![Val::name("Indexed"), Val::r(ind_sep), Val::Int(1), Val::Str(vec![0, 1, 2, 3, 4, 5])]));
    let mut cs = cs;
    cs.set("C6", Val::r(ind_idx));
    cs.set("C7", Val::r(ind_dn));
    let img = b.add_stream(
        vec![("Type".into(), Val::name("XObject")), ("Subtype".into(), Val::name("Image")), ("Width".into(), Val::Int(1)), ("Height".into(), Val::Int(1)), ("ColorSpace".into(), Val::r(ind_sep)), ("BitsPerComponent".into(), Val::Int(8))],
        vec![7],
    );
    let content = b.add_stream(vec![], b"/C0 cs 1 sc 0 0 10 10 re f /I0 Do".to_vec());
    let catalog = base(&mut b, vec![], Val::dict(vec![("ColorSpace", cs), ("XObject", Val::dict(vec![("I0", Val::r(img))]))]), Some(content));
    finish_classic(b, catalog)
}

/// stream lengths as references, predictors, LZW, images with CCITT / DCT parameters
pub fn streams() -> DocSpec {
    let mut b = Builder::new();
    // 2 rows of 3 bytes, PNG "None" predictor rows; every byte is also a valid row tag (0..=4), so
    // that a hostile geometry is followed to the last row instead of failing on the first tag
    let png_rows = vec![0u8, 1, 2, 3, 0, 4, 1, 2];
    let len_obj = b.reserve();
    let s1 = b.reserve();
    let data1 = zlib_stored(&png_rows);
    b.put(len_obj, Val::Int(data1.len() as i64));
    b.objs.insert(
        s1,
        Body::Stream { dict: vec![("Filter".into(), Val::name("FlateDecode")), ("DecodeParms".into(), Val::dict(vec![("Predictor", Val::Int(12)), ("Colors", Val::Int(1)), ("BitsPerComponent", Val::Int(8)), ("Columns", Val::Int(3))]))], data: data1, len_ref: Some(len_obj) },
    );
    let s2 = b.add_stream(vec![("Filter".into(), Val::name("LZWDecode")), ("DecodeParms".into(), Val::dict(vec![("EarlyChange", Val::Int(1)), ("Predictor", Val::Int(2)), ("Columns", Val::Int(2))]))], vec![0x80, 0x0b, 0x60, 0x50, 0x22, 0x0c, 0x0c, 0x85, 0x01]);
    let s3 = b.add_stream(vec![("Filter".into(), Val::Arr(vec![Val::name("ASCII85Decode"), Val::name("RunLengthDecode")]))], b"!!*-'\"9eu7~>".to_vec());
    let im_fax = b.add_stream(
        vec![
            ("Type".into(), Val::name("XObject")),
            ("Subtype".into(), Val::name("Image")),
            ("Width".into(), Val::Int(8)),
            ("Height".into(), Val::Int(2)),
            ("BitsPerComponent".into(), Val::Int(1)),
            ("ImageMask".into(), Val::Bool(true)),
            ("Decode".into(), Val::ints(&[1, 0])),
            ("Filter".into(), Val::name("CCITTFaxDecode")),
            ("DecodeParms".into(), Val::dict(vec![("K", Val::Int(-1)), ("Columns", Val::Int(8)), ("Rows", Val::Int(2))])),
        ],
        vec![0x00, 0x10, 0x01, 0x00, 0x10, 0x01],
    );
    let im_dct = b.add_stream(
        vec![
            ("Type".into(), Val::name("XObject")),
            ("Subtype".into(), Val::name("Image")),
            ("Width".into(), Val::Int(1)),
            ("Height".into(), Val::Int(1)),
            ("ColorSpace".into(), Val::name("DeviceRGB")),
            ("BitsPerComponent".into(), Val::Int(8)),
            ("Filter".into(), Val::name("DCTDecode")),
            ("DecodeParms".into(), Val::dict(vec![("ColorTransform", Val::Int(1))])),
        ],
        vec![0xff, 0xd8, 0xff, 0xd9],
    );
    let im_png = b.add_stream(
        vec![
            ("Type".into(), Val::name("XObject")),
            ("Subtype".into(), Val::name("Image")),
            ("Width".into(), Val::Int(3)),
            ("Height".into(), Val::Int(2)),
            ("ColorSpace".into(), Val::name("DeviceGray")),
            ("BitsPerComponent".into(), Val::Int(8)),
            ("Filter".into(), Val::name("FlateDecode")),
            ("DecodeParms".into(), Val::dict(vec![("Predictor", Val::Int(15)), ("Colors", Val::Int(1)), ("BitsPerComponent", Val::Int(8)), ("Columns", Val::Int(3))])),
            ("SMask".into(), Val::r(s1)),
        ],
        zlib_stored(&[1u8, 1, 2, 3, 2, 4, 5, 6]),
    );
    let content = b.add_stream(vec![("Filter".into(), Val::name("ASCIIHexDecode"))], ascii_hex(b"q /I0 Do /I1 Do /I2 Do Q"));
    let xo = Val::dict(vec![("I0", Val::r(im_fax)), ("I1", Val::r(im_dct)), ("I2", Val::r(im_png))]);
    let catalog = base(&mut b, vec![("Metadata", Val::r(s2)), ("Extra", Val::Arr(vec![Val::r(s3), Val::r(s1)]))], Val::dict(vec![("XObject", xo)]), Some(content));
    finish_classic(b, catalog)
}

/// hand-written object stream (N, First, Extends, members) under a cross-reference stream
pub fn objstm() -> DocSpec {
    let mut slots: BTreeMap<u32, Slot> = BTreeMap::new();
    let d = |v: Val| Slot::Direct { gen: 0, body: Body::Plain(v) };
    slots.insert(1, d(Val::dict(vec![("Type", Val::name("Catalog")), ("Pages", Val::r(2)), ("Extra", Val::Arr(vec![Val::r(5), Val::r(6), Val::r(7)]))])));
    slots.insert(2, d(Val::dict(vec![("Type", Val::name("Pages")), ("Kids", Val::Arr(vec![Val::r(5)])), ("Count", Val::Int(1))])));
    let m5 = b"<< /Type /Page /Parent 2 0 R /MediaBox [0 0 10 10] /Resources << >> >>";
    let m6 = b"[1 2 3]";
    let m7 = b"42";
    let header = format!("5 0 6 {} 7 {} ", m5.len() + 1, m5.len() + 1 + m6.len() + 1);
    let mut data = header.clone().into_bytes();
    data.extend_from_slice(m5);
    data.push(b'\n');
    data.extend_from_slice(m6);
    data.push(b'\n');
    data.extend_from_slice(m7);
    slots.insert(3, Slot::Direct { gen: 0, body: Body::Stream { dict: vec![("Type".into(), Val::name("ObjStm")), ("N".into(), Val::Int(3)), ("First".into(), Val::Int(header.len() as i64)), ("Extends".into(), Val::r(4))], data, len_ref: None } });
    slots.insert(4, Slot::Direct { gen: 0, body: Body::Stream { dict: vec![("Type".into(), Val::name("ObjStm")), ("N".into(), Val::Int(0)), ("First".into(), Val::Int(0))], data: vec![], len_ref: None } });
    slots.insert(5, Slot::RawCompressed { stm: 3, idx: 0 });
    slots.insert(6, Slot::RawCompressed { stm: 3, idx: 1 });
    slots.insert(7, Slot::RawCompressed { stm: 3, idx: 2 });
    DocSpec { junk: vec![], revisions: vec![Revision { slots, objstms: vec![], style: XrefStyle::Stream { num: 8, w: [1, 3, 2], cuts: vec![], filter: StmFilter::None, predictor: 0 }, size: 9, root: Val::r(1), trailer: vec![], overrides: vec![] }], encrypt: None }
}

/// two revisions (classic then xref stream) whose trailer / xref-stream fields are attack surface
pub fn xref_fields(stream_first: bool) -> DocSpec {
    let d = |v: Val| Slot::Direct { gen: 0, body: Body::Plain(v) };
    let mut s0: BTreeMap<u32, Slot> = BTreeMap::new();
    s0.insert(1, d(Val::dict(vec![("Type", Val::name("Catalog")), ("Pages", Val::r(2))])));
    s0.insert(2, d(Val::dict(vec![("Type", Val::name("Pages")), ("Kids", Val::Arr(vec![Val::r(3)])), ("Count", Val::Int(1))])));
    s0.insert(3, d(Val::dict(vec![("Type", Val::name("Page")), ("Parent", Val::r(2)), ("MediaBox", rect(0, 0, 10, 10)), ("Resources", Val::dict(vec![]))])));
    let mut s1: BTreeMap<u32, Slot> = BTreeMap::new();
    s1.insert(3, d(Val::dict(vec![("Type", Val::name("Page")), ("Parent", Val::r(2)), ("MediaBox", rect(0, 0, 20, 20)), ("Resources", Val::dict(vec![]))])));
    let style0 = if stream_first { XrefStyle::Stream { num: 4, w: [1, 3, 2], cuts: vec![], filter: StmFilter::None, predictor: 0 } } else { XrefStyle::Classic { cuts: vec![] } };
    let size0 = if stream_first { 5 } else { 4 };
    let style1 = XrefStyle::Stream { num: size0, w: [1, 3, 2], cuts: vec![], filter: StmFilter::AsciiHex, predictor: 0 };
    DocSpec {
        junk: vec![],
        revisions: vec![
            Revision { slots: s0, objstms: vec![], style: style0, size: size0, root: Val::r(1), trailer: vec![("ID".into(), Val::Arr(vec![Val::Str(b"a".to_vec()), Val::Str(b"a".to_vec())]))], overrides: vec![] },
            Revision { slots: s1, objstms: vec![], style: style1, size: size0 + 1, root: Val::r(1), trailer: vec![], overrides: vec![] },
        ],
        encrypt: None,
    }
}

/// four revisions (classic, classic, stream, stream), each rewriting the page: a /Prev chain long
/// enough for a loop that closes in its middle
pub fn xref_chain() -> DocSpec {
    let d = |v: Val| Slot::Direct { gen: 0, body: Body::Plain(v) };
    let page = |side: i64| d(Val::dict(vec![("Type", Val::name("Page")), ("Parent", Val::r(2)), ("MediaBox", rect(0, 0, side, side)), ("Resources", Val::dict(vec![]))]));
    let mut s0: BTreeMap<u32, Slot> = BTreeMap::new();
    s0.insert(1, d(Val::dict(vec![("Type", Val::name("Catalog")), ("Pages", Val::r(2))])));
    s0.insert(2, d(Val::dict(vec![("Type", Val::name("Pages")), ("Kids", Val::Arr(vec![Val::r(3)])), ("Count", Val::Int(1))])));
    s0.insert(3, page(10));
    let rev = |side: i64, style: XrefStyle, size: u32| {
        let mut s: BTreeMap<u32, Slot> = BTreeMap::new();
        s.insert(3, page(side));
        Revision { slots: s, objstms: vec![], style, size, root: Val::r(1), trailer: vec![], overrides: vec![] }
    };
    DocSpec {
        junk: vec![],
        revisions: vec![
            Revision { slots: s0, objstms: vec![], style: XrefStyle::Classic { cuts: vec![] }, size: 4, root: Val::r(1), trailer: vec![("ID".into(), Val::Arr(vec![Val::Str(b"a".to_vec()), Val::Str(b"a".to_vec())]))], overrides: vec![] },
            rev(20, XrefStyle::Classic { cuts: vec![] }, 4),
            rev(30, XrefStyle::Stream { num: 4, w: [1, 3, 2], cuts: vec![], filter: StmFilter::None, predictor: 0 }, 5),
            rev(40, XrefStyle::Stream { num: 5, w: [1, 3, 2], cuts: vec![], filter: StmFilter::AsciiHex, predictor: 0 }, 6),
        ],
        encrypt: None,
    }
}

/// an /Encrypt dictionary of the standard security handler (the password check fails, but the
/// key-length arithmetic in front of it is attack surface)
pub fn encrypt() -> DocSpec {
    let mut b = Builder::new();
    let enc = b.add(Val::dict(vec![
        ("Filter", Val::name("Standard")),
        ("V", Val::Int(2)),
        ("R", Val::Int(3)),
        ("Length", Val::Int(128)),
        ("P", Val::Int(-4)),
        ("O", Val::Str(vec![7u8; 32])),
        ("U", Val::Str(vec![9u8; 32])),
    ]));
    let enc4 = b.add(Val::dict(vec![
        ("Filter", Val::name("Standard")),
        ("V", Val::Int(4)),
        ("R", Val::Int(4)),
        ("Length", Val::Int(128)),
        ("P", Val::Int(-4)),
        ("O", Val::Str(vec![7u8; 32])),
        ("U", Val::Str(vec![9u8; 32])),
        ("CF", Val::dict(vec![("StdCF", Val::dict(vec![("CFM", Val::name("AESV2")), ("AuthEvent", Val::name("DocOpen")), ("Length", Val::Int(16))]))])),
        ("StmF", Val::name("StdCF")),
        ("StrF", Val::name("StdCF")),
    ]));
    let catalog = base(&mut b, vec![("Alt", Val::r(enc4))], Val::dict(vec![]), None);
    let mut layout = Layout::classic();
    layout.trailer = vec![("Encrypt".into(), Val::r(enc)), ("ID".into(), Val::Arr(vec![Val::Str(b"0123456789abcdef".to_vec()), Val::Str(b"0123456789abcdef".to_vec())]))];
    let mut rng = Rng::new(1);
    b.finish(catalog, &layout, &mut rng)
}

/// like `encrypt`, but the trailer's /Encrypt is the crypt-filter (V 4) dictionary
pub fn encrypt_v4() -> DocSpec {
    let mut b = Builder::new();
    let enc4 = b.add(Val::dict(vec![
        ("Filter", Val::name("Standard")),
        ("V", Val::Int(4)),
        ("R", Val::Int(4)),
        ("Length", Val::Int(128)),
        ("P", Val::Int(-4)),
        ("O", Val::Str(vec![7u8; 32])),
        ("U", Val::Str(vec![9u8; 32])),
        ("CF", Val::dict(vec![("StdCF", Val::dict(vec![("CFM", Val::name("V2")), ("AuthEvent", Val::name("DocOpen")), ("Length", Val::Int(16))]))])),
        ("StmF", Val::name("StdCF")),
        ("StrF", Val::name("StdCF")),
        ("EncryptMetadata", Val::Bool(false)),
    ]));
    let catalog = base(&mut b, vec![], Val::dict(vec![]), None);
    let mut layout = Layout::classic();
    layout.trailer = vec![("Encrypt".into(), Val::r(enc4)), ("ID".into(), Val::Arr(vec![Val::Str(b"0123456789abcdef".to_vec()), Val::Str(b"0123456789abcdef".to_vec())]))];
    let mut rng = Rng::new(1);
    b.finish(catalog, &layout, &mut rng)
}

/// a page tree that is a DAG: every node lists its only child four times and claims one page more
/// than exist, 14 levels deep (a look-up that retried siblings after a failed descent would visit
/// 4^14 nodes); plus two sibling subtrees with huge /Count values
pub fn dag_pages() -> DocSpec {
    let mut b = Builder::new();
    let catalog = b.reserve();
    let depth = 14;
    let nodes: Vec<u32> = (0..=depth).map(|_| b.reserve()).collect();
    let leaf = b.add(Val::dict(vec![("Type", Val::name("Page")), ("Parent", Val::r(nodes[depth])), ("MediaBox", rect(0, 0, 10, 10)), ("Resources", Val::dict(vec![]))]));
    let big1 = b.reserve();
    let big2 = b.reserve();
    let mut count: i64 = 2; // the bottom node claims 2 pages and has one
    for i in (0..=depth).rev() {
        let kids = if i == depth { vec![Val::r(leaf)] } else { vec![Val::r(nodes[i + 1]); 4] };
        if i < depth {
            count = (count * 4).min(2_000_000_000);
        }
        let mut kids = kids;
        let mut c = count;
        if i == 0 {
            kids.push(Val::r(big1));
            kids.push(Val::r(big2));
            c = 2_000_000_000;
        }
        let mut d = vec![("Type", Val::name("Pages")), ("Kids", Val::Arr(kids)), ("Count", Val::Int(c))];
        if i > 0 {
            d.push(("Parent", Val::r(nodes[i - 1])));
        }
        b.put(nodes[i], Val::dict(d));
    }
    for big in [big1, big2] {
        b.put(big, Val::dict(vec![("Type", Val::name("Pages")), ("Parent", Val::r(nodes[0])), ("Kids", Val::Arr(vec![])), ("Count", Val::Int(2147483647))]));
    }
    b.put(catalog, Val::dict(vec![("Type", Val::name("Catalog")), ("Pages", Val::r(nodes[0]))]));
    finish_classic(b, catalog)
}

/// annotations with appearance dictionaries (normal appearance as a stream and as a sub-dictionary
/// of states), a widget field, a link with a destination
pub fn annots() -> DocSpec {
    let mut b = Builder::new();
    let catalog = b.reserve();
    let pages = b.reserve();
    let page = b.reserve();
    let ap_stream = b.add_stream(vec![("Type".into(), Val::name("XObject")), ("Subtype".into(), Val::name("Form")), ("BBox".into(), rect(0, 0, 10, 10))], b"0 0 m 1 1 l S".to_vec());
    let ap_states = b.add(Val::dict(vec![("On", Val::r(ap_stream)), ("Off", Val::r(ap_stream))]));
    let a1 = b.add(Val::dict(vec![("Type", Val::name("Annot")), ("Subtype", Val::name("Stamp")), ("Rect", rect(0, 0, 10, 10)), ("AP", Val::dict(vec![("N", Val::r(ap_stream)), ("R", Val::r(ap_stream))])), ("P", Val::r(page))]));
    let a2 = b.add(Val::dict(vec![("Type", Val::name("Annot")), ("Subtype", Val::name("Widget")), ("FT", Val::name("Btn")), ("T", Val::Str(b"cb".to_vec())), ("Rect", rect(0, 0, 10, 10)), ("AP", Val::dict(vec![("N", Val::r(ap_states)), ("D", Val::r(ap_states))])), ("AS", Val::name("On"))]));
    let a3 = b.add(Val::dict(vec![("Type", Val::name("Annot")), ("Subtype", Val::name("Link")), ("Rect", rect(0, 0, 10, 10)), ("Dest", Val::Arr(vec![Val::r(page), Val::name("XYZ"), Val::Int(0), Val::Int(0), Val::Int(0)])), ("Border", Val::ints(&[0, 0, 1]))]));
    b.put(page, Val::dict(vec![("Type", Val::name("Page")), ("Parent", Val::r(pages)), ("MediaBox", rect(0, 0, 100, 100)), ("Resources", Val::dict(vec![])), ("Annots", Val::Arr(vec![Val::r(a1), Val::r(a2), Val::r(a3)]))]));
    b.put(pages, Val::dict(vec![("Type", Val::name("Pages")), ("Kids", Val::Arr(vec![Val::r(page)])), ("Count", Val::Int(1))]));
    b.put(catalog, Val::dict(vec![("Type", Val::name("Catalog")), ("Pages", Val::r(pages)), ("AcroForm", Val::dict(vec![("Fields", Val::Arr(vec![Val::r(a2)]))]))]));
    finish_classic(b, catalog)
}

/// name tree and number tree that are DAGs: 20 levels, every node lists its only child four times
/// (a walk that only guards the current path visits 4^20 nodes)
pub fn dag_trees() -> DocSpec {
    let mut b = Builder::new();
    let depth = 20;
    let mut roots = vec![];
    for number_tree in [false, true] {
        let nodes: Vec<u32> = (0..depth).map(|_| b.reserve()).collect();
        let leaf = if number_tree {
            b.add(Val::dict(vec![("Nums", Val::Arr(vec![Val::Int(0), Val::dict(vec![("S", Val::name("D"))])]))]))
        } else {
            b.add(Val::dict(vec![("Names", Val::Arr(vec![Val::Str(b"a".to_vec()), Val::Arr(vec![Val::r(3), Val::name("Fit")])]))]))
        };
        for i in 0..depth {
            let next = if i + 1 < depth { nodes[i + 1] } else { leaf };
            b.put(nodes[i], Val::dict(vec![("Kids", Val::Arr(vec![Val::r(next); 4]))]));
        }
        roots.push(nodes[0]);
    }
    let names = b.add(Val::dict(vec![("Dests", Val::r(roots[0]))]));
    let catalog = base(&mut b, vec![("Names", Val::r(names)), ("PageLabels", Val::r(roots[1]))], Val::dict(vec![]), None);
    finish_classic(b, catalog)
}

/// a long chain of eagerly loaded references without any cycle: a page whose /Parent chain is 3000
/// nodes long (typed loading nests once per link)
pub fn long_chain() -> DocSpec {
    let mut b = Builder::new();
    let catalog = b.reserve();
    let leaf = b.reserve();
    let n = 3000;
    let nodes: Vec<u32> = (0..n).map(|_| b.reserve()).collect();
    b.put(leaf, Val::dict(vec![("Type", Val::name("Page")), ("Parent", Val::r(nodes[n - 1])), ("MediaBox", rect(0, 0, 10, 10)), ("Resources", Val::dict(vec![]))]));
    for i in 0..n {
        let kid = if i + 1 < n { nodes[i + 1] } else { leaf };
        let mut d = vec![("Type", Val::name("Pages")), ("Kids", Val::Arr(vec![Val::r(kid)])), ("Count", Val::Int(1))];
        if i > 0 {
            d.push(("Parent", Val::r(nodes[i - 1])));
        }
        b.put(nodes[i], Val::dict(d));
    }
    b.put(catalog, Val::dict(vec![("Type", Val::name("Catalog")), ("Pages", Val::r(nodes[0]))]));
    finish_classic(b, catalog)
}

/// the rich document written encrypted with a valid /O and /U (empty user password): the document
/// opens, so that hostile structure meets the decryption of strings and streams
pub fn encrypt_open(r: u8, key_len: usize, compress: bool) -> DocSpec {
    let mut rng = Rng::new(7);
    let mut layout = Layout::classic();
    layout.encrypt = Some((r, key_len));
    if compress {
        layout.xref_stream = true;
        layout.compress = true;
    }
    families::rich(&mut rng, &families::RichOpts::all(), &layout)
}

/// text strings and dates: /Info with dates and text, an annotation with /M and /Contents, an
/// embedded file with /Params dates, an outline title in UTF-16
pub fn info_dates() -> DocSpec {
    let mut b = Builder::new();
    let info = b.add(Val::dict(vec![
        ("Title", Val::Str(b"\xfe\xff\x00T\x00i".to_vec())),
        ("Author", Val::Str(b"author".to_vec())),
        ("CreationDate", Val::Str(b"D:20200102030405+01'30'".to_vec())),
        ("ModDate", Val::Str(b"D:20210102030405Z".to_vec())),
    ]));
    let ef_stream = b.add_stream(
        vec![("Type".into(), Val::name("EmbeddedFile")), ("Params".into(), Val::dict(vec![("Size", Val::Int(3)), ("CreationDate", Val::Str(b"D:2019".to_vec())), ("ModDate", Val::Str(b"D:20190203".to_vec()))]))],
        b"abc".to_vec(),
    );
    let filespec = b.add(Val::dict(vec![("Type", Val::name("Filespec")), ("F", Val::Str(b"a.txt".to_vec())), ("UF", Val::Str(b"a.txt".to_vec())), ("EF", Val::dict(vec![("F", Val::r(ef_stream))]))]));
    let ef_tree = b.add(Val::dict(vec![("Names", Val::Arr(vec![Val::Str(b"a.txt".to_vec()), Val::r(filespec)]))]));
    let names = b.add(Val::dict(vec![("EmbeddedFiles", Val::r(ef_tree))]));
    let outline_item = b.reserve();
    let outlines = b.add(Val::dict(vec![("Type", Val::name("Outlines")), ("First", Val::r(outline_item)), ("Last", Val::r(outline_item)), ("Count", Val::Int(1))]));
    b.put(outline_item, Val::dict(vec![("Title", Val::Str(b"\xfe\xff\x00O".to_vec())), ("Parent", Val::r(outlines))]));
    let catalog = b.reserve();
    let pages = b.reserve();
    let page = b.reserve();
    let annot = b.add(Val::dict(vec![
        ("Type", Val::name("Annot")),
        ("Subtype", Val::name("Text")),
        ("Rect", rect(0, 0, 10, 10)),
        ("Contents", Val::Str(b"note".to_vec())),
        ("M", Val::Str(b"D:20220304050607-08'00'".to_vec())),
        ("NM", Val::Str(b"id1".to_vec())),
        ("P", Val::r(page)),
    ]));
    b.put(page, Val::dict(vec![("Type", Val::name("Page")), ("Parent", Val::r(pages)), ("MediaBox", rect(0, 0, 100, 100)), ("Resources", Val::dict(vec![])), ("Annots", Val::Arr(vec![Val::r(annot)])), ("LastModified", Val::Str(b"D:20230405".to_vec()))]));
    b.put(pages, Val::dict(vec![("Type", Val::name("Pages")), ("Kids", Val::Arr(vec![Val::r(page)])), ("Count", Val::Int(1))]));
    b.put(catalog, Val::dict(vec![("Type", Val::name("Catalog")), ("Pages", Val::r(pages)), ("Names", Val::r(names)), ("Outlines", Val::r(outlines))]));
    let mut layout = Layout::classic();
    layout.trailer = vec![("Info".into(), Val::r(info))];
    let mut rng = Rng::new(1);
    b.finish(catalog, &layout, &mut rng)
}

/// DAGs outside the page tree: 18 Type0 fonts each naming the next twice as /DescendantFonts; an
/// annotation whose appearance dictionary fans out 24 ways over four levels onto one stream; 18
/// JBIG2 streams each naming the next twice as /JBIG2Globals of a filter chain that then fails
pub fn dag_misc() -> DocSpec {
    let mut b = Builder::new();
    let depth = 18;
    // fonts
    let descriptor = b.add(Val::dict(vec![("Type", Val::name("FontDescriptor")), ("FontName", Val::name("Dag")), ("Flags", Val::Int(4))]));
    let cid = b.add(Val::dict(vec![
        ("Type", Val::name("Font")),
        ("Subtype", Val::name("CIDFontType2")),
        ("BaseFont", Val::name("Dag")),
        ("CIDSystemInfo", Val::dict(vec![("Registry", Val::Str(b"Adobe".to_vec())), ("Ordering", Val::Str(b"Identity".to_vec())), ("Supplement", Val::Int(0))])),
        ("FontDescriptor", Val::r(descriptor)),
    ]));
    let mut next = cid;
    for _ in 0..depth {
        next = b.add(Val::dict(vec![("Type", Val::name("Font")), ("Subtype", Val::name("Type0")), ("BaseFont", Val::name("Dag")), ("Encoding", Val::name("Identity-H")), ("DescendantFonts", Val::Arr(vec![Val::r(next), Val::r(next)]))]));
    }
    let font0 = next;
    // the same DAG with every descendant named through an object that is a bare reference
    let mut next = cid;
    for _ in 0..depth {
        let via = b.add(Val::Ref(next, 0));
        next = b.add(Val::dict(vec![("Type", Val::name("Font")), ("Subtype", Val::name("Type0")), ("BaseFont", Val::name("Dag")), ("Encoding", Val::name("Identity-H")), ("DescendantFonts", Val::Arr(vec![Val::r(via), Val::r(via)]))]));
    }
    let font1 = next;
    // and with a proper CID font in front of the two Type0 entries of every level
    let mut next = cid;
    for _ in 0..depth {
        next = b.add(Val::dict(vec![("Type", Val::name("Font")), ("Subtype", Val::name("Type0")), ("BaseFont", Val::name("Dag")), ("Encoding", Val::name("Identity-H")), ("DescendantFonts", Val::Arr(vec![Val::r(cid), Val::r(next), Val::r(next)]))]));
    }
    let font2 = next;
    // appearance dictionary
    let ap_stream = b.add_stream(vec![("Type".into(), Val::name("XObject")), ("Subtype".into(), Val::name("Form")), ("BBox".into(), rect(0, 0, 10, 10))], b"0 0 m 1 1 l S".to_vec());
    let mut level = ap_stream;
    for _ in 0..4 {
        let entries: Vec<(String, Val)> = (0..24).map(|i| (format!("S{}", i), Val::r(level))).collect();
        level = b.add(Val::Dict(entries));
    }
    let page = b.reserve();
    let annot = b.add(Val::dict(vec![("Type", Val::name("Annot")), ("Subtype", Val::name("Widget")), ("Rect", rect(0, 0, 10, 10)), ("AP", Val::dict(vec![("N", Val::r(level))])), ("AS", Val::name("S0")), ("P", Val::r(page))]));
    // JBIG2 globals
    let mut g = b.add_stream(vec![], vec![0, 1, 2, 3]);
    for _ in 0..depth {
        g = b.add_stream(
            vec![
                ("Type".into(), Val::name("XObject")),
                ("Subtype".into(), Val::name("Image")),
                ("Width".into(), Val::Int(1)),
                ("Height".into(), Val::Int(1)),
                ("ColorSpace".into(), Val::name("DeviceGray")),
                ("BitsPerComponent".into(), Val::Int(1)),
                ("Filter".into(), Val::Arr(vec![Val::name("JBIG2Decode"), Val::name("JBIG2Decode"), Val::name("NoSuchDecode")])),
                ("DecodeParms".into(), Val::Arr(vec![Val::dict(vec![("JBIG2Globals", Val::r(g))]), Val::dict(vec![("JBIG2Globals", Val::r(g))]), Val::Null])),
            ],
            vec![0, 1, 2, 3],
        );
    }
    let catalog = b.reserve();
    let pages = b.reserve();
    b.put(
        page,
        Val::dict(vec![
            ("Type", Val::name("Page")),
            ("Parent", Val::r(pages)),
            ("MediaBox", rect(0, 0, 100, 100)),
            ("Resources", Val::dict(vec![("Font", Val::dict(vec![("F1", Val::r(font0)), ("F2", Val::r(font1)), ("F3", Val::r(font2))])), ("XObject", Val::dict(vec![("Im1", Val::r(g))]))])),
            ("Annots", Val::Arr(vec![Val::r(annot)])),
        ]),
    );
    b.put(pages, Val::dict(vec![("Type", Val::name("Pages")), ("Kids", Val::Arr(vec![Val::r(page)])), ("Count", Val::Int(1))]));
    b.put(catalog, Val::dict(vec![("Type", Val::name("Catalog")), ("Pages", Val::r(pages))]));
    finish_classic(b, catalog)
}

/// 60 ICC profile streams in a chain without a cycle, every /Alternate wrapped in four /Indexed
/// levels (each hop is a nested typed load plus the colour-space levels in between)
pub fn icc_chain() -> DocSpec {
    let mut b = Builder::new();
    let mut cs = Val::name("DeviceGray");
    for _ in 0..60 {
        let mut alt = cs;
        for _ in 0..4 {
            alt = Val::Arr(vec![Val::name("Indexed"), alt, Val::Int(0), Val::Str(vec![0])]);
        }
        let icc = b.add_stream(vec![("N".into(), Val::Int(1)), ("Alternate".into(), alt)], vec![0u8; 8]);
        cs = Val::Arr(vec![Val::name("ICCBased"), Val::r(icc)]);
    }
    let cs_obj = b.add(cs);
    let content = b.add_stream(vec![], b"/CS0 cs 0 sc 0 0 10 10 re f".to_vec());
    let catalog = base(&mut b, vec![], Val::dict(vec![("ColorSpace", Val::dict(vec![("CS0", Val::r(cs_obj))]))]), Some(content));
    finish_classic(b, catalog)
}

/// the rarely read corners of the catalog: a metadata stream whose /Length is indirect, two file
/// specifications with filtered embedded-file streams under a two-level /EmbeddedFiles tree, a
/// structure tree whose elements name the root and a page, a three-level outline with /Dest arrays,
/// /A GoTo actions (direct, named and through a dictionary) and the catalog's /Dests dictionary
pub fn catalog_misc() -> DocSpec {
    let mut b = Builder::new();
    let catalog = b.reserve();
    let pages = b.reserve();
    let page = b.reserve();
    let meta_len = b.reserve();
    let meta = b.reserve();
    let meta_data = b"<x:xmpmeta/>".to_vec();
    b.put(meta_len, Val::Int(meta_data.len() as i64));
    b.objs.insert(meta, Body::Stream { dict: vec![("Type".into(), Val::name("Metadata")), ("Subtype".into(), Val::name("XML"))], data: meta_data, len_ref: Some(meta_len) });
    let ef1 = b.add_stream(
        vec![("Type".into(), Val::name("EmbeddedFile")), ("Subtype".into(), Val::name("text")), ("Filter".into(), Val::name("FlateDecode")), ("Params".into(), Val::dict(vec![("Size", Val::Int(5)), ("CheckSum", Val::Str(vec![1, 2, 3, 4]))]))],
        zlib_stored(b"hello"),
    );
    let ef2 = b.add_stream(
        vec![("Type".into(), Val::name("EmbeddedFile")), ("Filter".into(), Val::Arr(vec![Val::name("ASCIIHexDecode"), Val::name("FlateDecode")])), ("DecodeParms".into(), Val::Arr(vec![Val::Null, Val::dict(vec![("Predictor", Val::Int(12)), ("Columns", Val::Int(3))])]))],
        ascii_hex(&zlib_stored(&[0u8, 1, 2, 3, 2, 4, 5, 6])),
    );
    let spec1 = b.add(Val::dict(vec![("Type", Val::name("Filespec")), ("F", Val::Str(b"a.txt".to_vec())), ("EF", Val::dict(vec![("F", Val::r(ef1)), ("UF", Val::r(ef1))]))]));
    let spec2 = b.add(Val::dict(vec![("Type", Val::name("Filespec")), ("F", Val::Str(b"b.bin".to_vec())), ("EF", Val::dict(vec![("F", Val::r(ef2)), ("DOS", Val::r(ef1)), ("Mac", Val::r(ef2)), ("Unix", Val::r(ef2))]))]));
    let ef_leaf = b.add(Val::dict(vec![("Limits", Val::Arr(vec![Val::Str(b"a".to_vec()), Val::Str(b"b".to_vec())])), ("Names", Val::Arr(vec![Val::Str(b"a".to_vec()), Val::r(spec1), Val::Str(b"b".to_vec()), Val::r(spec2)]))]));
    let ef_root = b.add(Val::dict(vec![("Kids", Val::Arr(vec![Val::r(ef_leaf)]))]));
    let names = b.add(Val::dict(vec![("EmbeddedFiles", Val::r(ef_root))]));
    // structure tree
    let st_root = b.reserve();
    let se1 = b.add(Val::dict(vec![("Type", Val::name("StructElem")), ("S", Val::name("Document")), ("P", Val::r(st_root)), ("ID", Val::Str(b"e1".to_vec())), ("Pg", Val::r(page))]));
    let se2 = b.reserve();
    b.put(se2, Val::dict(vec![("Type", Val::name("StructElem")), ("S", Val::name("P")), ("P", Val::r(se1)), ("Pg", Val::r(page))]));
    b.put(st_root, Val::dict(vec![("Type", Val::name("StructTreeRoot")), ("K", Val::Arr(vec![Val::r(se1), Val::r(se2)]))]));
    // outlines: three levels, every kind of destination
    let outlines = b.reserve();
    let o1 = b.reserve();
    let o2 = b.reserve();
    let o3 = b.reserve();
    let o4 = b.reserve();
    let dest_dict = b.add(Val::dict(vec![("D", Val::Arr(vec![Val::r(page), Val::name("XYZ"), Val::Null, Val::Int(10), Val::Real(1.5)]))]));
    b.put(o1, Val::dict(vec![("Title", Val::Str(b"1".to_vec())), ("Parent", Val::r(outlines)), ("Next", Val::r(o4)), ("First", Val::r(o2)), ("Last", Val::r(o2)), ("Count", Val::Int(2)), ("Dest", Val::Arr(vec![Val::r(page), Val::name("FitH"), Val::Int(100)])), ("C", Val::ints(&[1, 0, 0])), ("F", Val::Int(2))]));
    b.put(o2, Val::dict(vec![("Title", Val::Str(b"1.1".to_vec())), ("Parent", Val::r(o1)), ("First", Val::r(o3)), ("Last", Val::r(o3)), ("Count", Val::Int(1)), ("A", Val::dict(vec![("S", Val::name("GoTo")), ("D", Val::Arr(vec![Val::r(page), Val::name("FitR"), Val::Int(0), Val::Int(0), Val::Int(10), Val::Int(10)]))]))]));
    b.put(o3, Val::dict(vec![("Title", Val::Str(b"1.1.1".to_vec())), ("Parent", Val::r(o2)), ("A", Val::dict(vec![("S", Val::name("GoTo")), ("D", Val::Str(b"named".to_vec()))])), ("SE", Val::dict(vec![("S", Val::name("P"))]))]));
    b.put(o4, Val::dict(vec![("Title", Val::Str(b"2".to_vec())), ("Parent", Val::r(outlines)), ("Prev", Val::r(o1)), ("Dest", Val::r(dest_dict)), ("A", Val::dict(vec![("S", Val::name("URI")), ("URI", Val::Str(b"http://x".to_vec()))]))]));
    b.put(outlines, Val::dict(vec![("Type", Val::name("Outlines")), ("First", Val::r(o1)), ("Last", Val::r(o4)), ("Count", Val::Int(4))]));
    let dests = b.add(Val::dict(vec![
        ("named", Val::Arr(vec![Val::r(page), Val::name("FitV"), Val::Int(5)])),
        ("viaDict", Val::r(dest_dict)),
        ("fitb", Val::Arr(vec![Val::r(page), Val::name("FitBH"), Val::Int(7)])),
        ("xyz", Val::Arr(vec![Val::r(page), Val::name("XYZ"), Val::Int(1), Val::Null, Val::Null])),
    ]));
    b.put(page, Val::dict(vec![("Type", Val::name("Page")), ("Parent", Val::r(pages)), ("MediaBox", rect(0, 0, 100, 100)), ("Resources", Val::dict(vec![])), ("Metadata", Val::r(meta)), ("StructParents", Val::Int(0))]));
    b.put(pages, Val::dict(vec![("Type", Val::name("Pages")), ("Kids", Val::Arr(vec![Val::r(page)])), ("Count", Val::Int(1))]));
    b.put(
        catalog,
        Val::dict(vec![("Type", Val::name("Catalog")), ("Pages", Val::r(pages)), ("Names", Val::r(names)), ("Outlines", Val::r(outlines)), ("Dests", Val::r(dests)), ("Metadata", Val::r(meta)), ("StructTreeRoot", Val::r(st_root))]),
    );
    finish_classic(b, catalog)
}

pub fn rich_all() -> DocSpec {
    let mut rng = Rng::new(7);
    families::rich(&mut rng, &families::RichOpts::all(), &Layout::classic())
}

pub fn all() -> Vec<(&'static str, DocSpec)> {
    vec![
        ("page_tree", page_tree()),
        ("trees", trees()),
        ("fonts", fonts()),
        ("colors", colors()),
        ("streams", streams()),
        ("objstm", objstm()),
        ("xref_fields_classic_first", xref_fields(false)),
        ("xref_fields_stream_first", xref_fields(true)),
        ("xref_chain", xref_chain()),
        ("encrypt", encrypt()),
        ("encrypt_v4", encrypt_v4()),
        ("encrypt_open_rc4_128", encrypt_open(3, 16, false)),
        ("encrypt_open_v4_objstm", encrypt_open(4, 16, true)),
        ("dag_pages", dag_pages()),
        ("annots", annots()),
        ("info_dates", info_dates()),
        ("dag_trees", dag_trees()),
        ("dag_misc", dag_misc()),
        ("icc_chain", icc_chain()),
        ("catalog_misc", catalog_misc()),
        ("long_chain", long_chain()),
        ("rich", rich_all()),
    ]
}
